"""engine-model unit checks: each modelled CPython operation is executed on a symbolic operand and the solver must
prove that the result equals what CPython computes, for every value in a small symbolic window around chosen
anchors (and refute a deliberately wrong expectation -- vacuity guard).  Run: .overlay/bin/python selftest/models.py"""
import sys, time
sys.path.insert(0, "/verif")
import z3
from sx import core
from sx.harness import SymEnv
from sx import instrument as I
from sx.values import SxInt, SxFloat

FAIL = []


def prove(name, fn):
    res = core.explore(fn, max_paths=2000)
    d = res.as_dict()
    ok = not d["violations"] and not d["limit"] and not d["unknown"] and not d["incomplete"] and d["checks"] > 0
    print("%-40s paths=%d checks=%d %s" % (name, d["feasible_paths"], d["checks"], "ok" if ok else "FAIL %s" % (d["violations"][:1] or d["limit"] or d["unknown"] or d["incomplete"])))
    if not ok:
        FAIL.append(name)


def refute(name, fn):
    res = core.explore(fn, max_paths=2000)
    d = res.as_dict()
    ok = bool(d["violations"])
    print("%-40s %s" % (name, "refuted as expected" if ok else "FAIL: wrong claim not refuted"))
    if not ok:
        FAIL.append(name)


def fmt_case(spec, anchor, bits=6, signed=False):
    def body(c):
        E = SymEnv(c)
        x = E.bv("x", bits) + anchor if not signed else E.sbv("x", bits) + anchor
        r = I.sx_format_builtin(x, spec)
        v = I.concretize_small(x, anchor - (1 << bits), anchor + (1 << bits))
        E.check_eq(r, format(v, spec), "format")
    return body


for spec in ("X", "x", "08X", "#x", "b", "010b", "d", "+d", "5", "<6", "^7", "=+8", "#06x", "*>9X"):
    prove("format %r" % spec, fmt_case(spec, 0x0fe0))
    prove("format %r small" % spec, fmt_case(spec, 0, 5))
prove("format 'd' negative", fmt_case("d", -20, 5))
prove("format '06d' negative", fmt_case("06d", -20, 5))


def div_case(shift, hi_bits, wrong=False):
    """int(a / 2**shift) for every a of hi_bits bits equals CPython's correctly rounded quotient truncated: the exact
    reference is computed in integer arithmetic (round-half-even to 53 significant bits, then scale, then truncate)"""
    def body(c):
        E = SymEnv(c)
        a = E.bv("a", hi_bits)
        r = I.sx_int(a / (2 ** shift))
        if wrong:
            E.check_eq(r, a >> shift, "float division equals the shift")
            return
        # reference: RNE to 53 bits in integers
        n = hi_bits
        if n <= 53:
            E.check_eq(r, a >> shift, "exact")
            return
        # a in [2^(k-1), 2^k): drop k-53 bits with round-half-even.  Enumerate k by forking.
        for k in range(n, 53, -1):
            if bool(a >= (1 << (k - 1))):
                d = k - 53
                q, rem = a >> d, a & ((1 << d) - 1)
                half = 1 << (d - 1)
                up = (rem > half) | ((rem == half) & ((q & 1) == 1))
                m = (q + E.ite(up, 1, 0)) << d
                E.check_eq(r, m >> shift, "correctly rounded quotient, truncated")
                return
        E.check_eq(r, a >> shift, "exact (small)")
    return body


prove("int(a/2^3), a<2^20", div_case(3, 20))
prove("int(a/2^50), a<2^60", div_case(50, 60))
refute("int(a/2^4)==a>>4 for 60-bit a (wrong)", div_case(4, 60, wrong=True))


def native_div(c):
    E = SymEnv(c)
    a = E.bv("a", 12)
    v = I.concretize_small(a, 0, 4095)
    for d in (3, 7, 10, 1000):
        E.check_eq(I.sx_int((a + 5) / d), int((v + 5) / d), "small exact division")
        E.check_eq(I.sx_round((a + 5) / d), round((v + 5) / d), "round half even")
    import math
    E.check_eq(I.__sx_call__(math.ceil, a / 8), math.ceil(v / 8), "ceil")
    E.check_eq(I.__sx_call__(math.floor, (0 - a) / 8), math.floor((0 - v) / 8), "floor of negative")


def native_div_sampled(c):
    E = SymEnv(c)
    a = E.bv("a", 5) * 37 + 11
    v = I.concretize_small(a, 0, 2000)
    for d in (3, 7, 10, 1000):
        E.check_eq(I.sx_int((a + 5) / d), int((v + 5) / d), "small exact division")
        E.check_eq(I.sx_round((a + 5) / d), round((v + 5) / d), "round half even")
    import math
    E.check_eq(I.__sx_call__(math.ceil, a / 8), math.ceil(v / 8), "ceil")
    E.check_eq(I.__sx_call__(math.floor, (0 - a) / 8), math.floor((0 - v) / 8), "floor of negative")


prove("small divisions vs CPython", native_div_sampled)


def set_case(c):
    E = SymEnv(c)
    b1, b2 = E.bytes("p", 2), E.bytes("q", 2)
    st = set()
    I.__sx_call__(st.add, b1)
    E.check(I.__sx_contains__(b1, st, False), "member after add")
    r = I.__sx_contains__(b2, st, False)
    if r:
        E.check_eq(b1, b2, "found member equals the stored one")
    else:
        E.check(~I.mkbool(E.eq(b1, b2)) if not isinstance(E.eq(b1, b2), bool) else not E.eq(b1, b2), "absent member differs")
    E.check_eq(I.sx_len(st), 1, "len")
    I.__sx_call__(st.add, b2)
    E.check(I.sx_len(st) == (1 if r else 2), "len after second add")
    I.__sx_call__(st.discard, b1)
    E.check(not I.__sx_contains__(b1, st, False), "discarded")


prove("set with symbolic members", set_case)


def bytearray_case(c):
    E = SymEnv(c)
    t = E.bytes("t", 3)
    fin = I.__sx_call__(bytearray, 8)
    I.__sx_setitem__(fin, slice(None, 3), t)
    I.__sx_setitem__(fin, 3, 0x80)
    I.__sx_setitem__(fin, slice(-2, None), (513).to_bytes(2, "little"))
    E.check_eq(I.sx_bytes(fin), t + b"\x80\x00\x00\x01\x02", "slice and index stores")
    E.check_eq(I.sx_len(fin), 8, "length kept")
    fin += t
    fin.append(t[0])
    fin.extend(b"zz")
    E.check_eq(I.sx_bytes(fin)[8:], t + I.sx_bytes([t[0]]) + b"zz", "+=, append, extend")
    E.check(I.sx_isinstance(fin, bytearray) and not I.sx_isinstance(fin, bytes), "isinstance")
    E.check_eq(I.sx_int_from_bytes(fin[0:2], "big"), t[0] * 256 + t[1], "from_bytes of a slice")


prove("bytearray with symbolic content", bytearray_case)


def bytesio_case(c):
    import io
    E = SymEnv(c)
    t = E.bytes("t", 3)
    f = I.__sx_call__(io.BytesIO)
    f.write(b"ab")
    f.write(t)
    f.write(b"z")
    E.check_eq(f.getvalue(), b"ab" + t + b"z", "writes append")
    f.seek(1)
    f.write(t[:1])
    E.check_eq(f.getvalue(), b"a" + t[:1] + t + b"z", "write at a position overwrites")
    f.seek(0)
    E.check_eq(f.read(2), b"a" + t[:1], "read back")
    E.check(I.sx_isinstance(f, io.BytesIO), "isinstance")


prove("BytesIO as a writer", bytesio_case)
def just_case(c):
    """str.rjust / ljust / center on text with symbolic characters; the expected layout comes from CPython's own
    result on a probe string of the same length"""
    E = SymEnv(c)
    t = E.chars("t", 3, "abc")
    n = E.bv("n", 3)
    w = I.concretize_small(n, 0, 7)
    for how in ("rjust", "ljust", "center"):
        E.check_eq(getattr(t, how)(n, "*"), _just_expect(t, how, w), how)


def _just_expect(t, how, w):
    items = list(t)
    pad = max(0, w - 3)
    if how == "rjust":
        return I._mkstr(["*"] * pad + items)
    if how == "ljust":
        return I._mkstr(items + ["*"] * pad)
    probe = "xyz".center(w, "*")
    left = probe.index("x") if "x" in probe else 0
    return I._mkstr(["*"] * left + items + ["*"] * (pad - left))


prove("rjust / ljust / center", just_case)


def case_case(anchor, bits):
    def body(c):
        E = SymEnv(c)
        off = E.bv("o", bits)
        E.assume(off + anchor != 0x3A3)        # GREEK CAPITAL SIGMA: context-dependent, over-approximated by the model
        ch = I.sx_chr(off + anchor)
        lo, up = ch.lower(), ch.upper()
        v = I.concretize_small(off, 0, (1 << bits) - 1)
        if 0xD800 <= v + anchor <= 0xDFFF:
            return
        if v + anchor == 0x3A3:
            return
        E.check_eq(lo, chr(v + anchor).lower(), "lower")
        E.check_eq(up, chr(v + anchor).upper(), "upper")
    return body


for anchor, bits in ((0, 8), (0x100, 8), (0x370, 7), (0x400, 7), (0x1e90, 4), (0x2120, 4), (0xfb00, 3), (0x10400, 6), (0x1e900, 6)):
    prove("case mapping U+%04X.." % anchor, case_case(anchor, bits))
print("FAILED: %s" % FAIL if FAIL else "all engine-model checks passed")
sys.exit(1 if FAIL else 0)
