import sys, time
sys.path.insert(0, "/verif")
from sx import core
from sx.harness import SymEnv, load_repo, Raised
R = load_repo(True)

def varint(c):
    E = SymEnv(c)
    i = E.bv("i", 72)
    r = E.run(R.helper.encode_varint, i)
    if isinstance(r, Raised):
        E.check(i >= 2**64, "refused<2^64")
        return "raised"
    E.check(i < 2**64, "accepted>=2^64")
    rd = R.helper.BytesIO(r) if False else None
    from sx.instrument import SxReader
    s = SxReader(r)
    j = R.helper.read_varint(s)
    E.check_eq(j, i, "roundtrip")
    E.check(s.pos == len(r), "consumed")
    return len(r)
t=time.time(); res = core.explore(varint); print("varint", res.as_dict(), res.returns, time.time()-t)

def parse(c, n):
    E = SymEnv(c)
    b = E.bytes("b", n)
    from sx.instrument import SxReader
    s = SxReader(b)
    r = E.run(R.script.Script.parse, s)
    if isinstance(r, Raised):
        return "rej"
    E.check(s.short_reads == 0, "short read accepted")
    return "acc"
for n in range(0,5):
    t=time.time(); res = core.explore(lambda c: parse(c,n)); d=res.as_dict(); print("parse",n, d['paths'], d['queries'], len(d['violations']), d['limit'], d['incomplete'][:2], round(time.time()-t,2))

def b58(c, n):
    E = SymEnv(c)
    b = E.bytes("b", n, mode="int")
    s = R.helper.encode_base58(b)
    d = R.helper.decode_base58(s)
    E.check_eq(d, b, "roundtrip")
    return len(s)
for n in (1,2,4,6):
    t=time.time(); res = core.explore(lambda c: b58(c,n)); d=res.as_dict(); print("b58",n, d['paths'], d['queries'], d['violations'][:1], d['limit'], d['incomplete'][:2], d['unknown'][:2], round(time.time()-t,2))
