"""debug helper: run one case of one property in-process and print its statistics"""
import sys, time, json
sys.path.insert(0,'/verif')
from sx.runner import run_case
import importlib
pid, name = sys.argv[1], sys.argv[2]
mod = importlib.import_module('props.'+pid)
tier = sys.argv[3] if len(sys.argv)>3 else 'quick'
for c in mod.cases(tier):
    if c.name == name or (name.endswith('*') and c.name.startswith(name[:-1])):
        d=c.as_dict(); d.update(max_paths=c.max_paths, max_decisions=c.max_decisions, timeout_ms=c.timeout_ms)
        t=time.time(); r=run_case(pid, d)
        r.pop('sources',None)
        print(c.name, {k:r.get(k) for k in ('feasible_paths','paths','queries','checks','solver_time','wall','limit','error','incomplete','unknown')}, 'viol', [ (v['label'], v['witness']) for v in r.get('violations',[])][:3])
        if r.get('error'): print(r.get('trace'))
        print('   labels', r.get('labels'), 'returns', r.get('returns'))
