#!/usr/bin/env python3
"""copies confirmed seeded changes from a seed root into /verif/seeded/<id>/<variant>/ with a meta.json that records
what the change breaks, what it needs to manifest and what was run (from the campaign summaries)"""
import json, os, re, shutil, sys, glob
root, camps = sys.argv[1], sys.argv[2:]
res = {}
for c in camps:
    p = os.path.join(c, "summary.txt")
    if not os.path.exists(p):
        continue
    for line in open(p):
        m = re.match(r"(C\d\d)([a-z]) check_exit=(\d+) demo_clean=(\d+) demo_patched=(\d+) tests='([^']*)' (\d+) violations; *(.*)", line)
        if m:
            res[(m.group(1), m.group(2))] = dict(check_exit=int(m.group(3)), demo_clean=int(m.group(4)), demo_patched=int(m.group(5)),
                                                 tests=m.group(6), violations=int(m.group(7)), first=m.group(8).strip()[:300], campaign=c)
V = os.path.dirname(os.path.dirname(os.path.abspath(__file__)))
for (pid, var), r in sorted(res.items()):
    src = os.path.join(root, pid, var)
    if not os.path.exists(os.path.join(src, "patch.diff")):
        continue
    confirmed = r["demo_clean"] == 0 and r["demo_patched"] != 0 and "124 passed" in r["tests"]
    if not confirmed:
        print("NOT confirmed, skipped:", pid, var, r)
        continue
    dst = os.path.join(V, "seeded", pid, var)
    os.makedirs(dst, exist_ok=True)
    if os.path.abspath(src) != os.path.abspath(dst):
        shutil.copy(os.path.join(src, "patch.diff"), dst)
        shutil.copy(os.path.join(src, "demo.py"), dst)
    meta = {}
    try:
        meta = json.load(open(os.path.join(src, "meta.json")))
    except Exception:
        pass
    if "confirmed_by_me" in meta and "first_campaign" not in meta:
        meta["first_campaign"] = meta["confirmed_by_me"]          # outcome when the change was first tried
    meta.update(property=pid, variant=var,
                confirmed_by_me=dict(
                    ran=["scratch copy of /repo under /var/tmp (removed afterwards)", "demo.py on the clean copy -> exit %d" % r["demo_clean"],
                         "git apply patch.diff", "pinned test suite with the patch -> %s" % r["tests"],
                         "demo.py with the patch -> exit %d" % r["demo_patched"],
                         "VERIF_REPO=<copy> bin/check %s --tier quick -> exit %d, %d VIOLATION lines" % (pid, r["check_exit"], r["violations"])],
                    detected=r["check_exit"] == 1, first_report=r["first"]))
    json.dump(meta, open(os.path.join(dst, "meta.json"), "w"), indent=1)
    print(pid, var, "detected" if r["check_exit"] == 1 else "MISSED (exit %d)" % r["check_exit"])
