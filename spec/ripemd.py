"""Independent RIPEMD-160 reference (Dobbertin, Bosselaers, Preneel 1996), written from the
specification.  Works on native ints/bytes and on engine values.  Additions are carried out in
unbounded integers and reduced only where the specification rotates or outputs a word, which is
arithmetically the same as reducing after every addition (rol_s(x mod 2^32) only depends on
x mod 2^32).  Validated natively against OpenSSL's ripemd160 on every run."""

R1 = [0, 1, 2, 3, 4, 5, 6, 7, 8, 9, 10, 11, 12, 13, 14, 15,
      7, 4, 13, 1, 10, 6, 15, 3, 12, 0, 9, 5, 2, 14, 11, 8,
      3, 10, 14, 4, 9, 15, 8, 1, 2, 7, 0, 6, 13, 11, 5, 12,
      1, 9, 11, 10, 0, 8, 12, 4, 13, 3, 7, 15, 14, 5, 6, 2,
      4, 0, 5, 9, 7, 12, 2, 10, 14, 1, 3, 8, 11, 6, 15, 13]
R2 = [5, 14, 7, 0, 9, 2, 11, 4, 13, 6, 15, 8, 1, 10, 3, 12,
      6, 11, 3, 7, 0, 13, 5, 10, 14, 15, 8, 12, 4, 9, 1, 2,
      15, 5, 1, 3, 7, 14, 6, 9, 11, 8, 12, 2, 10, 0, 4, 13,
      8, 6, 4, 1, 3, 11, 15, 0, 5, 12, 2, 13, 9, 7, 10, 14,
      12, 15, 10, 4, 1, 5, 8, 7, 6, 2, 13, 14, 0, 3, 9, 11]
S1 = [11, 14, 15, 12, 5, 8, 7, 9, 11, 13, 14, 15, 6, 7, 9, 8,
      7, 6, 8, 13, 11, 9, 7, 15, 7, 12, 15, 9, 11, 7, 13, 12,
      11, 13, 6, 7, 14, 9, 13, 15, 14, 8, 13, 6, 5, 12, 7, 5,
      11, 12, 14, 15, 14, 15, 9, 8, 9, 14, 5, 6, 8, 6, 5, 12,
      9, 15, 5, 11, 6, 8, 13, 12, 5, 12, 13, 14, 11, 8, 5, 6]
S2 = [8, 9, 9, 11, 13, 15, 15, 5, 7, 7, 8, 11, 14, 14, 12, 6,
      9, 13, 15, 7, 12, 8, 9, 11, 7, 7, 12, 7, 6, 15, 13, 11,
      9, 7, 15, 11, 8, 6, 6, 14, 12, 13, 5, 14, 13, 13, 7, 5,
      15, 5, 8, 11, 14, 14, 6, 14, 6, 9, 12, 9, 12, 5, 15, 8,
      8, 5, 12, 9, 12, 5, 14, 6, 8, 13, 6, 5, 15, 13, 11, 11]
K1 = [0x00000000, 0x5A827999, 0x6ED9EBA1, 0x8F1BBCDC, 0xA953FD4E]
K2 = [0x50A28BE6, 0x5C4DD124, 0x6D703EF3, 0x7A6D76E9, 0x00000000]
IV = (0x67452301, 0xEFCDAB89, 0x98BADCFE, 0x10325476, 0xC3D2E1F0)
M32 = 0xFFFFFFFF


def f(j, x, y, z):
    if j < 16:
        return x ^ y ^ z
    if j < 32:
        return (x & y) | (~x & z)
    if j < 48:
        return (x | ~y) ^ z
    if j < 64:
        return (x & z) | (y & ~z)
    return x ^ (y | ~z)


def rol(x, s):
    return ((x << s) | ((x & M32) >> (32 - s))) & M32


def word(block, i, ifb):
    return ifb(block[4 * i:4 * i + 4], "little")


def compress(h, block, ifb=int.from_bytes):
    X = [word(block, i, ifb) for i in range(16)]
    A1, B1, C1, D1, E1 = h
    A2, B2, C2, D2, E2 = h
    for j in range(80):
        T = rol(A1 + f(j, B1, C1, D1) + X[R1[j]] + K1[j // 16], S1[j]) + E1
        A1, E1, D1, C1, B1 = E1, D1, rol(C1, 10), B1, T
        T = rol(A2 + f(79 - j, B2, C2, D2) + X[R2[j]] + K2[j // 16], S2[j]) + E2
        A2, E2, D2, C2, B2 = E2, D2, rol(C2, 10), B2, T
    return (h[1] + C1 + D2, h[2] + D1 + E2, h[3] + E1 + A2, h[4] + A1 + B2, h[0] + B1 + C2)


def pad(n):
    """MD-style padding for a message of n bytes: 0x80, zeros up to 56 mod 64, 64-bit little-endian bit length"""
    z = (55 - n) % 64
    return b"\x80" + b"\x00" * z + (8 * n).to_bytes(8, "little")


def ripemd160(data, ifb=int.from_bytes):
    msg = data + pad(len(data))
    assert len(msg) % 64 == 0
    h = IV
    for off in range(0, len(msg), 64):
        h = compress(h, msg[off:off + 64], ifb)
    out = b""
    for w in h:
        out = out + (w & M32).to_bytes(4, "little")
    return out
