"""sx.replay -- run a harness function natively (uninstrumented repository code, real hashlib /
ecdsa) on one witness.  Prints one JSON line: status = reproduced | passed | infeasible | error."""
import importlib
import json
import os
import sys
import traceback

VERIF = os.path.dirname(os.path.dirname(os.path.abspath(__file__)))
if VERIF not in sys.path:
    sys.path.insert(0, VERIF)


def run_one(mod, R, rec, subst=False):
    """inputs the witness does not mention were unconstrained when the assertion failed; a few
    default fillings are tried so that later assumptions of the harness can be met"""
    last = None
    for fill in range(5):
        last = _run_one(mod, R, rec, subst, fill)
        if last["status"] != "infeasible" or not last.get("defaulted"):
            return last
    return last


def _import_all():
    """import every module of the repository package now (so that substitution of hash primitives reaches all of them)"""
    import pkgutil
    pkg = importlib.import_module("btc_hd_wallet")
    for m in pkgutil.iter_modules(pkg.__path__):
        if m.name == "__main__" or m.ispkg and m.name != "bip39_wordlist":
            continue
        try:
            importlib.import_module("btc_hd_wallet." + m.name)
        except Exception:
            pass
    try:
        importlib.import_module("btc_hd_wallet.__main__")
    except BaseException:
        pass


def _run_one(mod, R, rec, subst, fill):
    from sx.harness import ConcEnv, load_repo
    from sx.core import Infeasible
    from sx import env as sxenv
    # every attempt starts from freshly imported repository modules: process-wide state left by an earlier attempt
    # (memo tables, class-level caches) must not hide or fake a history-dependent failure
    R = load_repo(False)
    _import_all()
    if hasattr(mod, "setup_native"):
        mod.setup_native(R)
    E = ConcEnv(rec["witness"], rec.get("params"), fill)
    E.H = sxenv.NativeOracle(rec.get("oracle") if subst else None)
    if subst:
        E.H.patch_repo(R)
    try:
        fn = getattr(mod, rec["fn"])
        ret = fn(E, R, **rec.get("params", {}))
    except Infeasible:
        return dict(status="infeasible", defaulted=E.defaulted)
    except BaseException as e:
        return dict(status="error", detail="%s: %s" % (type(e).__name__, e), trace=traceback.format_exc()[-1500:])
    extra = {}
    if getattr(E, "preempt_points", None) is not None:
        extra = dict(preempt_points=E.preempt_points, preempt_fired=E.preempt_fired)
    if E.failed:
        return dict(status="reproduced", failed=E.failed, passed=E.passed, ret=repr(ret)[:200], **extra)
    return dict(status="passed", passed=E.passed, ret=repr(ret)[:200], **extra)


def preempt_search(mod, R, rec, spec):
    """a witness with a pre-emption point chosen by the solver (counted in the engine's yield points) is confirmed
    natively on two real threads: thread A is suspended at its j-th line inside the repository, thread B runs to
    completion, A resumes; j ranges over every line event of A (bounded) until the harness fails"""
    import time
    t0 = time.time()
    w = dict(rec["witness"], _count_points=1, _native_preempt=0)
    r0 = _run_one(mod, R, dict(rec, witness=w), False, 0)
    if r0["status"] == "reproduced":
        r0["witness_found"] = w
        return r0
    n = min(int(r0.get("preempt_points") or 0), spec.get("max_points", 5000))
    for j in range(1, n + 1):
        if time.time() - t0 > spec.get("seconds", 600):
            break
        w = dict(rec["witness"], _native_preempt=j)
        r = _run_one(mod, R, dict(rec, witness=w), False, 0)
        if r["status"] == "reproduced":
            r["witness_found"] = w
            r["native_preemption_points_tried"] = j
            return r
    return None


def random_search(mod, R, rec, spec):
    import os, time, copy
    t0 = time.time()
    tries = 0
    while time.time() - t0 < spec.get("seconds", 40):
        w = dict(rec["witness"])
        for name, nbytes in spec["inputs"].items():
            if name in w or spec.get("always"):
                w[name] = os.urandom(nbytes).hex()
        for name, (lo, hi) in spec.get("ints", {}).items():
            w[name] = lo + int.from_bytes(os.urandom(8), "big") % (hi - lo + 1)
        tries += 1
        r = _run_one(mod, R, dict(rec, witness=w), False, 0)
        if r["status"] == "reproduced":
            r["random_search_tries"] = tries
            r["witness_found"] = w
            return r
    return None


def main():
    prop_id = sys.argv[1]
    batch = "--batch" in sys.argv
    data = json.load(sys.stdin)
    from sx.harness import load_repo
    mod = importlib.import_module("props." + prop_id)
    R = load_repo(False)
    _import_all()
    if hasattr(mod, "setup_native"):
        mod.setup_native(R)
    if batch:
        print(json.dumps(dict(results=[run_one(mod, R, r) for r in data["batch"]])))
    else:
        r = run_one(mod, R, data)
        if r["status"] == "passed" and getattr(mod, "PREEMPT_REPLAY", None) and "preempt_at" in data.get("witness", {}):
            r = preempt_search(mod, R, data, mod.PREEMPT_REPLAY) or r
        if r["status"] == "passed" and getattr(mod, "RANDOM_REPLAY", None):
            # the witness depends on a quantity the group model abstracts (e.g. an x coordinate with a leading zero byte):
            # look for a concrete instance by re-drawing the listed byte inputs at random, for a bounded time
            r = random_search(mod, R, data, mod.RANDOM_REPLAY) or r
        if r["status"] == "passed" and data.get("oracle"):
            # the witness depends on hash outputs the solver chose: replay once more with exactly
            # those outputs substituted for the hash primitives (from outside the repository)
            r2 = run_one(mod, R, data, subst=True)
            if r2["status"] == "reproduced":
                r2["substituted_hashes"] = len(data["oracle"])
                r = r2
        print(json.dumps(r))


if __name__ == "__main__":
    main()
