"""sx.core -- path manager of the symbolic executor.

One z3 Solver per path.  A harness function is re-executed from the start for every path,
following a recorded decision prefix ("plan"); at a new branch point both outcomes are checked
for feasibility with the solver and the infeasible side is pruned.  Limits are *unwinding
assertions*: hitting one makes the run inconclusive, never a pass.
"""
import os
import time
import z3


class EngineAbort(BaseException):
    """Control-flow exceptions of the engine derive from BaseException so that repository code
    (and harness code) catching `Exception` never swallows them."""


class Infeasible(EngineAbort):
    pass


class UnwindLimit(EngineAbort):
    pass


class Unsupported(EngineAbort):
    """The code under analysis left the Python subset the engine models."""


class SolverUnknown(EngineAbort):
    pass


QUERY_TIMEOUT_MS = 120000
FAST_MS = 1500


class Ctx:
    def __init__(self, plan=None, max_decisions=4000, timeout_ms=None, deadline=None, max_unwind=None):
        self.deadline = deadline
        self.stop_file = None
        self.max_unwind = max_unwind or MAX_UNWIND
        self.sites = {}
        self.solver = z3.Solver()
        self.timeout_ms = timeout_ms or QUERY_TIMEOUT_MS
        self.last_solver = self.solver
        self.slow_queries = 0
        self.trail = []          # [taken: bool, sibling_done: bool]
        self.plan = plan or []
        self.queries = 0
        self.solver_time = 0.0
        self.max_decisions = max_decisions
        self.fresh = 0
        self.inputs = []         # (name, kind, payload) declared by the harness, for witnesses
        self.violations = []     # dicts
        self.checks = 0          # property assertions discharged on this path
        self.incomplete = []     # reasons (concretisations, unknowns)
        self.unknown = []
        self.env = {}            # per-path state of environment models (call logs, UF tables)
        self.pc_size = 0
        self.decided = {}
        self.keep = []
        self.model = None

    # ------------------------------------------------------------------ solver access
    def add(self, *cs):
        for c in cs:
            self.solver.add(c)
            self.pc_size += 1
        self.model = None

    def check(self, *extra):
        """incremental default solver first (short budget); on timeout the same formula goes to a
        one-shot bit-blasting pipeline (simplify, ackermannize_bv, bit-blast, sat), which decides
        the wide modular-arithmetic + UF queries of the BIP32 harnesses 10-100x faster; last resort
        is the default solver with the full budget.  Only sat/unsat answers are ever used."""
        t0 = time.time()
        self.queries += 1
        self.last_solver = self.solver
        if self.stop_file and (self.queries & 7) == 0 and os.path.exists(self.stop_file):
            raise UnwindLimit("stopped: another case of this run already produced a reproduced violation")
        if self.env.get("fp"):
            # floating-point terms on this path: the incremental core stalls on them (measured: unknown after 60 s
            # where fpa2bv + bit-blasting answers in 0.2 s), so such paths go straight to that pipeline
            r = self._fp_check(extra)
            if r in ("sat", "unsat"):
                self.solver_time += time.time() - t0
                return r
        self.solver.set("timeout", FAST_MS)
        r = str(self.solver.check(*extra))
        if r == "unknown":
            r = self._slow_check(extra)
        self.solver_time += time.time() - t0
        return r

    def _fp_check(self, extra):
        try:
            s2 = z3.TryFor(z3.Then("simplify", "fpa2bv", "simplify", "ackermannize_bv", "simplify", "bit-blast", "smt"),
                           self.timeout_ms).solver()
            s2.set("timeout", self.timeout_ms)
            s2.add(*self.solver.assertions())
            s2.add(*extra)
            r = str(s2.check())
            if r in ("sat", "unsat"):
                self.last_solver = s2
            return r
        except z3.Z3Exception:
            return "unknown"

    def _slow_check(self, extra):
        self.slow_queries += 1
        try:
            s2 = z3.TryFor(z3.Then("simplify", "ackermannize_bv", "simplify", "bit-blast", "sat"), self.timeout_ms).solver()
            s2.set("timeout", self.timeout_ms)
            s2.add(*self.solver.assertions())
            s2.add(*extra)
            r = str(s2.check())
            if r in ("sat", "unsat"):
                self.last_solver = s2
                return r
        except z3.Z3Exception:
            pass
        self.solver.set("timeout", self.timeout_ms)
        self.last_solver = self.solver
        r = str(self.solver.check(*extra))
        if r == "unknown":
            # model finding only: stochastic local search can produce a witness (sat) for circuits
            # on which CDCL stalls (e.g. two different hash circuits); it can never support 'holds'
            try:
                s3 = z3.TryFor(z3.Then("simplify", "ackermannize_bv", "simplify", "qfbv-sls"), 30000).solver()
                s3.set("timeout", 30000)
                s3.add(*self.solver.assertions())
                s3.add(*extra)
                if str(s3.check()) == "sat":
                    self.last_solver = s3
                    return "sat"
            except z3.Z3Exception:
                pass
        return r

    def newvar(self, prefix, sort):
        self.fresh += 1
        return z3.Const("%s!%d" % (prefix, self.fresh), sort)

    # ------------------------------------------------------------------ branching
    def decide(self, cond):
        """cond: z3 BoolRef -> python bool; records the path condition."""
        cond = z3.simplify(cond)
        if z3.is_true(cond):
            return True
        if z3.is_false(cond):
            return False
        key = cond.get_id()
        hit = self.decided.get(key)
        if hit is not None:
            return hit
        r = self._decide(cond)
        self.decided[key] = r
        self.keep.append(cond)
        return r

    def _decide(self, cond):
        i = len(self.trail)
        if i >= self.max_decisions:
            raise UnwindLimit("more than %d branch decisions on one path" % self.max_decisions)
        if self.deadline and time.time() > self.deadline:
            raise UnwindLimit("deadline reached inside a path")
        if self.stop_file and (i & 15) == 0 and os.path.exists(self.stop_file):
            raise UnwindLimit("stopped: another case of this run already produced a reproduced violation")
        # loop unwinding assertion: a branch at one source location of the repository taken more than
        # max_unwind times on one path means a loop whose trip count the inputs do not bound
        site = _repo_site()
        if site is not None:
            n = self.sites[site] = self.sites.get(site, 0) + 1
            if n > self.max_unwind:
                raise UnwindLimit("loop at %s:%d unrolled more than %d times on one path" % (site[0], site[1], self.max_unwind))
        if i < len(self.plan):
            b, done = self.plan[i]
            self.trail.append([b, done])
            self.add(cond if b else z3.Not(cond))
            return b
        # one feasible side comes for free from a model of the current path condition
        m = self._model()
        val = None
        if m is not None:
            v = m.eval(cond, model_completion=True)
            val = True if z3.is_true(v) else False if z3.is_false(v) else None
        if val is None:
            rt = self.check(cond)
            if rt == "unsat":
                self.trail.append([False, True])
                self._add_keep(z3.Not(cond))
                return False
            rf = self.check(z3.Not(cond))
            if rt == "unknown" or rf == "unknown":
                self.unknown.append("branch")
            if rf == "unsat":
                self.trail.append([True, True])
                self.add(cond)
                return True
            self.trail.append([True, False])
            self.add(cond)
            return True
        other = z3.Not(cond) if val else cond
        ro = self.check(other)
        if ro == "unknown":
            self.unknown.append("branch")
        if ro == "unsat":
            self.trail.append([val, True])
            self._add_keep(cond if val else z3.Not(cond))
            return val
        # both sides feasible: explore True first
        self.trail.append([True, False])
        if val:
            self._add_keep(cond)
        else:
            mm = self.last_solver.model() if ro == "sat" else None
            self.add(cond)
            self.model = mm
        return True

    def free_choice(self, cond):
        """a branch on a scheduling variable that occurs in no other constraint: both sides are feasible whenever the
        path is, so no solver call is needed (the constraint is still recorded, for the witness)"""
        i = len(self.trail)
        if i >= self.max_decisions:
            raise UnwindLimit("more than %d branch decisions on one path" % self.max_decisions)
        if i < len(self.plan):
            b, done = self.plan[i]
            self.trail.append([b, done])
            self.add(cond if b else z3.Not(cond))
            return b
        self.trail.append([True, False])
        self.add(cond)
        return True

    def _model(self):
        if self.model is None:
            if self.check() == "sat":
                self.model = self.last_solver.model()
        return self.model

    def _add_keep(self, c):
        """add a constraint that the cached model is known to satisfy"""
        m = self.model
        self.solver.add(c)
        self.pc_size += 1
        self.model = m

    def assume(self, cond):
        if isinstance(cond, bool):
            if not cond:
                raise Infeasible()
            return
        cond = z3.simplify(cond)
        if z3.is_true(cond):
            return
        if z3.is_false(cond):
            raise Infeasible()
        self.add(cond)
        r = self.check()
        if r == "unsat":
            raise Infeasible()
        if r == "unknown":
            self.unknown.append("assume")

    # ------------------------------------------------------------------ property assertions
    def model_inputs(self, model):
        out = {}
        for name, kind, payload in self.inputs:
            out[name] = _eval_input(model, kind, payload)
        return out

    def prove(self, cond, label, extra=None):
        """Assert that `cond` holds on the current path for every value of the inputs.
        cond: z3 BoolRef or python bool."""
        self.checks += 1
        if isinstance(cond, bool):
            if cond:
                return True
            neg = None
        else:
            cond = z3.simplify(cond)
            if z3.is_true(cond):
                return True
            neg = z3.Not(cond)
        # a property assertion is decided by a fresh solver over (path condition, negated claim):
        # measured 15x faster than push/pop on the long-lived path solver for the XOR-heavy queries
        saved = self.solver
        fresh = z3.Solver()
        fresh.add(*saved.assertions())
        self.solver = fresh
        try:
            if neg is not None:
                self.solver.add(neg)
            r = self.check()
            if r == "unsat":
                return True
            if r == "unknown":
                self.unknown.append("check:" + label)
                return None
            m = self.last_solver.model()
            v = {"label": label, "witness": self.model_inputs(m)}
            try:
                from . import env as _env
                tab = _env.oracle_table(m)
                if tab:
                    v["oracle"] = tab
            except Exception:
                pass
            if extra:
                v["extra"] = extra(m) if callable(extra) else extra
            self.violations.append(v)
            return False
        finally:
            self.solver = saved
            self.last_solver = saved

    def concretize(self, e, why):
        """Replace a symbolic term by one solver-chosen value (adds e == v to the path).
        Marks the run incomplete: a later 'no violation' is then not a verdict.
        Before falling back to an arbitrary model value, boundary values built from the integer literals of the
        repository function that forced the concretisation (c^k - 1, c^k, c^k + 1) are tried, one path each: code
        that leaves the modelled subset (floats, C helpers) typically misbehaves exactly there."""
        self.incomplete.append(why)
        for cand in _boundary_candidates(e):
            try:
                c = (e == cand)
            except Exception:
                break
            if self.decide(c):
                return z3.BitVecVal(cand, e.size()) if z3.is_bv(e) else z3.IntVal(cand)
        r = self.check()
        if r != "sat":
            raise Infeasible() if r == "unsat" else SolverUnknown(why)
        v = self.last_solver.model().eval(e, model_completion=True)
        self.add(e == v)
        return v


MAX_UNWIND = int(os.environ.get("VERIF_MAX_UNWIND", "300"))
_REPO_PREFIX = None


def _repo_site():
    global _REPO_PREFIX
    import sys
    if _REPO_PREFIX is None:
        _REPO_PREFIX = os.path.join(os.environ.get("VERIF_REPO", "/repo"), "")
    f = sys._getframe(2)
    depth = 0
    while f is not None and depth < 40:
        fn = f.f_code.co_filename
        if fn.startswith(_REPO_PREFIX):
            return (fn[len(_REPO_PREFIX):], f.f_lineno)
        f = f.f_back
        depth += 1
    return None


def _boundary_candidates(e, limit=36):
    import sys
    repo = os.environ.get("VERIF_REPO", "/repo")
    f = sys._getframe(2)
    consts = set()
    depth = 0
    while f is not None and depth < 60:
        if f.f_code.co_filename.startswith(repo):
            for c in f.f_code.co_consts:
                if isinstance(c, int) and not isinstance(c, bool) and 2 <= c <= 1 << 16:
                    consts.add(c)
            break
        f = f.f_back
        depth += 1
    out = []
    maxbits = e.size() - 1 if z3.is_bv(e) else 600
    for c in sorted(consts):
        k = 1
        v = c
        while v.bit_length() <= maxbits and k <= 80:
            if k >= 2:
                out.extend([v - 1, v, v + 1])
            v *= c
            k += 1
    out.sort()
    return out[:max(limit, 72)]


def _second_opinion(solver):
    """z3's default solver said unknown: try model-finding tactics (these can only ever answer
    sat with a model, so they never support 'holds')."""
    try:
        g = z3.Goal()
        g.add(*solver.assertions())
        for tac in ("qfbv-sls",):
            s2 = z3.Tactic(tac).solver()
            s2.set("timeout", 30000)
            s2.add(*solver.assertions())
            if str(s2.check()) == "sat":
                # re-assert the model values in the main solver to obtain a model object there
                return "unknown"   # keep it simple: treated as inconclusive, reported as such
    except Exception:
        pass
    return "unknown"


def _eval_input(model, kind, payload):
    def ev(e):
        v = model.eval(e, model_completion=True)
        if z3.is_bv_value(v):
            return v.as_long()
        if z3.is_int_value(v):
            return v.as_long()
        if z3.is_true(v):
            return True
        if z3.is_false(v):
            return False
        return str(v)
    if kind == "int":
        e, signed = payload
        v = model.eval(e, model_completion=True)
        if z3.is_bv_value(v):
            return v.as_signed_long() if signed else v.as_long()
        return ev(e)
    if kind == "bytes":
        return bytes(ev(x) & 0xff for x in payload).hex()
    if kind == "str":
        return "".join(chr(ev(x)) for x in payload)
    if kind == "const":
        return payload
    raise ValueError(kind)


CTX = None
PATH_HOOKS = []      # callables run at the start of every path (reset of process-wide state)


def ctx():
    return CTX


class ExploreResult:
    def __init__(self):
        self.paths = 0
        self.feasible_paths = 0
        self.queries = 0
        self.decisions = 0
        self.solver_time = 0.0
        self.checks = 0
        self.violations = []
        self.incomplete = []
        self.unknown = []
        self.limit = None
        self.returns = []

    def as_dict(self):
        return dict(paths=self.paths, feasible_paths=self.feasible_paths, queries=self.queries,
                    decisions=self.decisions, solver_time=round(self.solver_time, 3),
                    checks=self.checks, violations=self.violations, incomplete=self.incomplete[:20],
                    unknown=self.unknown[:20], limit=self.limit)


def explore(fn, max_paths=20000, max_decisions=4000, stop_after_violations=3, timeout_ms=None,
            deadline=None, max_unwind=None, stop_file=None):
    """Run fn(ctx) once per feasible path (depth-first, replaying decision prefixes)."""
    global CTX
    res = ExploreResult()
    plan = []
    while True:
        c = Ctx(plan=plan, max_decisions=max_decisions, timeout_ms=timeout_ms, deadline=deadline, max_unwind=max_unwind)
        c.stop_file = stop_file
        CTX = c
        for h in PATH_HOOKS:
            h()
        try:
            r = fn(c)
            res.feasible_paths += 1
            res.returns.append(r)
        except Infeasible:
            pass
        except UnwindLimit as e:
            res.limit = "unwind: %s" % e
        except (Unsupported, SolverUnknown) as e:
            # this path left the modelled subset: the run can no longer end in "holds", but the other paths are still
            # explored (a violation found on one of them is replayed natively like any other)
            res.incomplete.append("path abandoned: %s: %s" % (type(e).__name__, str(e).splitlines()[0][:200]))
            res.abandoned = getattr(res, "abandoned", 0) + 1
            if res.abandoned > 200:
                res.limit = "more than 200 paths left the modelled subset"
        finally:
            CTX = None
        res.paths += 1
        res.queries += c.queries
        res.solver_time += c.solver_time
        res.decisions += len(c.trail)
        res.checks += c.checks
        res.violations.extend(c.violations)
        res.incomplete.extend(c.incomplete)
        res.unknown.extend(c.unknown)
        trail = c.trail
        while trail and trail[-1][1]:
            trail.pop()
        if not trail:
            break
        plan = [list(t) for t in trail[:-1]] + [[not trail[-1][0], True]]
        if res.paths >= max_paths:
            res.limit = "path limit %d" % max_paths
            break
        if getattr(res, "abandoned", 0) > 200:
            break
        if len(res.violations) >= stop_after_violations:
            res.limit = res.limit or "stopped after %d violations" % len(res.violations)
            break
        if deadline and time.time() > deadline:
            res.limit = "deadline"
            break
        if stop_file and os.path.exists(stop_file):
            res.limit = "stopped: another case of this run already produced a reproduced violation"
            break
    return res
