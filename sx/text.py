"""sx.text -- opaque text: strings the code under test never inspects character by character
(mnemonic, passphrase).  A value is a term of an uninterpreted sort; str methods, unicodedata and
encode() are uninterpreted functions, so a verdict holds for every string of every length and script.
Axioms instantiated on use: normalize(F, normalize(F, x)) = normalize(F, x);
is_normalized(F, x) => normalize(F, x) = x."""
import hashlib
import unicodedata

import z3

from . import core, instrument
from .core import Unsupported
from .values import SxBool, SxBytes, bytes_from_bv, mkbool

Text = z3.DeclareSort("Text")
OBytes = z3.DeclareSort("OBytes")
_LIT = {}
_LITB = {}


def lit(s):
    if s not in _LIT:
        _LIT[s] = z3.Const("lit_%d_%s" % (len(_LIT), "".join(ch if ch.isalnum() else "_" for ch in s)[:20]), Text)
    return _LIT[s]


def litb(b):
    if b not in _LITB:
        _LITB[b] = z3.Const("litb_%d" % len(_LITB), OBytes)
    return _LITB[b]


def _t(x):
    if isinstance(x, SxText):
        return x.e
    if isinstance(x, str):
        return lit(x)
    raise Unsupported("mixing opaque text with %s" % type(x).__name__)


class SxText:
    """str stand-in"""
    _sx_strlike = True

    def __init__(self, e):
        self.e = e

    def __add__(self, o):
        return SxText(z3.Function("str_concat", Text, Text, Text)(self.e, _t(o)))

    def __radd__(self, o):
        return SxText(z3.Function("str_concat", Text, Text, Text)(_t(o), self.e))

    def __eq__(self, o):
        if isinstance(o, (SxText, str)):
            return mkbool(self.e == _t(o))
        return False

    def __ne__(self, o):
        r = self.__eq__(o)
        return (not r) if isinstance(r, bool) else ~r

    def __hash__(self):
        raise Unsupported("hash of opaque text")

    def __bool__(self):
        return bool(mkbool(z3.Function("str_nonempty", Text, z3.BoolSort())(self.e)))

    def __len__(self):
        raise Unsupported("len() of opaque text")

    def __iter__(self):
        raise Unsupported("iteration over opaque text")

    def __getitem__(self, k):
        raise Unsupported("indexing opaque text")

    def encode(self, encoding="utf-8", errors="strict"):
        enc = encoding.lower().replace("_", "-")
        enc = "utf-8" if enc in ("utf8", "utf-8") else enc
        return SxOpaqueBytes(z3.Function("encode_%s" % enc.replace("-", "_"), Text, OBytes)(self.e))

    def __getattr__(self, name):
        if name.startswith("__"):
            raise AttributeError(name)
        # every other str method returning text is an uninterpreted function of the text (and of
        # its concrete arguments, which become part of the function name)
        if name in ("strip", "lstrip", "rstrip", "lower", "upper", "casefold", "title", "capitalize", "swapcase",
                    "replace", "expandtabs", "removeprefix", "removesuffix", "zfill", "center", "ljust", "rjust"):
            def f(*a, **k):
                if any(not isinstance(v, (str, int, type(None))) for v in list(a) + list(k.values())):
                    raise Unsupported("str.%s with symbolic arguments on opaque text" % name)
                fn = z3.Function("str_%s_%s" % (name, abs(hash((a, tuple(sorted(k.items()))))) % 10 ** 8), Text, Text)
                return SxText(fn(self.e))
            return f
        if name in ("isascii", "isalpha", "isdigit", "isspace", "islower", "isupper", "isalnum", "isprintable",
                    "startswith", "endswith", "isidentifier", "isnumeric", "isdecimal", "istitle"):
            def g(*a, **k):
                if any(not isinstance(v, (str, int, tuple, type(None))) for v in list(a) + list(k.values())):
                    raise Unsupported("str.%s with symbolic arguments on opaque text" % name)
                fn = z3.Function("str_%s_%s" % (name, abs(hash((a, tuple(sorted(k.items()))))) % 10 ** 8), Text, z3.BoolSort())
                return mkbool(fn(self.e))
            return g
        if name in ("split", "rsplit", "splitlines"):
            def h(*a, **k):
                if any(not isinstance(v, (str, int, type(None))) for v in list(a) + list(k.values())):
                    raise Unsupported("str.%s with symbolic arguments on opaque text" % name)
                fn = z3.Function("str_%s_%s" % (name, abs(hash((a, tuple(sorted(k.items()))))) % 10 ** 8), Text, TextList)
                return SxTextList(fn(self.e))
            return h
        raise Unsupported("str.%s on opaque text" % name)

    def __repr__(self):
        return "<SxText %s>" % self.e


TextList = z3.DeclareSort("TextList")


class SxTextList:
    """result of str.split() on opaque text: only join / len-free use is supported"""
    _sx_opaque = True

    def __init__(self, e):
        self.e = e

    def __iter__(self):
        raise Unsupported("iteration over the words of opaque text")

    def __len__(self):
        raise Unsupported("number of words of opaque text")


def join_text(sep, lst):
    if not isinstance(sep, str):
        raise Unsupported("join with a symbolic separator")
    return SxText(z3.Function("str_join_%s" % abs(hash(sep)), TextList, Text)(lst.e))


class SxOpaqueBytes:
    def __init__(self, e):
        self.e = e

    def __eq__(self, o):
        if isinstance(o, SxOpaqueBytes):
            return mkbool(self.e == o.e)
        return False

    def __hash__(self):
        raise Unsupported("hash of opaque bytes")

    def __add__(self, o):
        oe = o.e if isinstance(o, SxOpaqueBytes) else litb(bytes(o))
        return SxOpaqueBytes(z3.Function("bytes_concat", OBytes, OBytes, OBytes)(self.e, oe))

    def __radd__(self, o):
        return SxOpaqueBytes(z3.Function("bytes_concat", OBytes, OBytes, OBytes)(litb(bytes(o)), self.e))

    def decode(self, encoding="utf-8", errors="strict"):
        return SxText(z3.Function("decode_%s" % encoding.lower().replace("-", "_"), OBytes, Text)(self.e))


def _ascii_only(x):
    from .values import SxStr, SxChar
    its = x.items if isinstance(x, SxStr) else [x]
    for i in its:
        if isinstance(i, str):
            if ord(i) >= 128:
                return False
        elif isinstance(i, SxChar):
            poss = i.possible()
            if poss is not None:
                if any(ord(c) >= 128 for c in poss):
                    return False
            elif not (i.idx.hi is not None and i.idx.hi < 128):
                return False
        else:
            return False
    return True


def _normalize(form, x):
    from .values import SxStr, SxChar
    if isinstance(x, (SxStr, SxChar)):
        if _ascii_only(x):
            return x                   # every normalisation form is the identity on ASCII
        raise Unsupported("unicodedata.normalize on symbolic non-ASCII characters")
    if not isinstance(x, SxText):
        if isinstance(form, str) and isinstance(x, str):
            return unicodedata.normalize(form, x)
        raise Unsupported("unicodedata.normalize on %s" % type(x).__name__)
    if not isinstance(form, str):
        raise Unsupported("symbolic normalisation form")
    f = z3.Function("normalize_%s" % form, Text, Text)
    r = f(x.e)
    core.CTX.add(f(r) == r)        # idempotence
    return SxText(r)


def _is_normalized(form, x):
    from .values import SxStr, SxChar
    if isinstance(x, (SxStr, SxChar)):
        if _ascii_only(x):
            return True
        raise Unsupported("unicodedata.is_normalized on symbolic non-ASCII characters")
    if not isinstance(x, SxText):
        return unicodedata.is_normalized(form, x)
    f = z3.Function("normalize_%s" % form, Text, Text)
    p = z3.Function("is_normalized_%s" % form, Text, z3.BoolSort())
    core.CTX.add(z3.Implies(p(x.e), f(x.e) == x.e), z3.Implies(f(x.e) == x.e, p(x.e)))
    # NFKD/NFKC-normalised text is also NFD/NFC-normalised
    for strong, weak in (("NFKD", "NFD"), ("NFKC", "NFC")):
        if form in (strong, weak):
            ps = z3.Function("is_normalized_%s" % strong, Text, z3.BoolSort())
            pw = z3.Function("is_normalized_%s" % weak, Text, z3.BoolSort())
            core.CTX.add(z3.Implies(ps(x.e), pw(x.e)))
    return mkbool(p(x.e))


def pbkdf2_opaque(hash_name, pw, salt, iterations, dklen):
    out = dklen if dklen is not None else hashlib.new(hash_name).digest_size
    def ob(v):
        if isinstance(v, SxOpaqueBytes):
            return v.e
        if isinstance(v, (bytes, bytearray)):
            return litb(bytes(v))
        raise Unsupported("pbkdf2 mixing opaque and symbolic byte strings")
    f = z3.Function("pbkdf2_%s_%d_%d_o" % (hash_name, iterations, out), OBytes, OBytes, z3.BitVecSort(8 * out))
    return bytes_from_bv(f(ob(pw), ob(salt)), out)


def install():
    instrument.register(unicodedata.normalize, _normalize)
    instrument.register(unicodedata.is_normalized, _is_normalized)


def fresh(name):
    return SxText(z3.Const(name, Text))
