"""sx.instrument -- load the repository's real source with four mechanical AST rewrites so that
operations CPython does not let user classes intercept are routed through the engine:

  1. every Call            -> __sx_call__(f, *args, **kw)
  2. Subscript loads       -> __sx_getitem__(obj, key)        (slices become slice objects)
  3. `x in y`/`x not in y` -> __sx_contains__(x, y, negated)
  4. `a if t else b`       -> __sx_ifexp__(t, lambda: a, lambda: b)
  5. f-strings             -> __sx_fstr__(parts...)

Everything else is executed by CPython on the real code.  Nothing is cached: the source is
re-read from $VERIF_REPO on every run.
"""
import ast
import builtins
import hashlib
import importlib.abc
import importlib.util
import io
import os
import re
import sys
import types

import z3

from . import core
from .core import Unsupported
from .values import (SxByteArray, SxFloat, SxInt, SxBool, SxBytes, SxStr, SxChar, Numeral, WordItem, is_sym, any_sym, mkbool, has_sym, eq_term,
                     z3bool, sym_ite, concretize_small, _mkstr, _mkbytes, _char_in, _items,
                     HEXLOW, HEXUP, str_of)

REPO = os.environ.get("VERIF_REPO", "/repo")
PKG = "btc_hd_wallet"


# ------------------------------------------------------------------------------- AST rewriting
YIELD_POINTS = False      # set (before the repository is imported) by property modules that explore thread switches


def _with_yields(stmts):
    out = []
    for st in stmts:
        if not isinstance(st, (ast.FunctionDef, ast.AsyncFunctionDef, ast.ClassDef, ast.Import, ast.ImportFrom, ast.Global,
                               ast.Nonlocal, ast.Pass)):
            y = ast.Expr(ast.Call(func=ast.Name("__sx_yield__", ast.Load()), args=[], keywords=[]))
            out.append(ast.copy_location(y, st))
        out.append(st)
    return out


class YieldTx(ast.NodeTransformer):
    """a possible thread switch before every statement inside function bodies (second pass, after Tx)"""

    def __init__(self):
        self.depth = 0

    def _fn(self, n):
        self.depth += 1
        self.generic_visit(n)
        self.depth -= 1
        first_doc = n.body and isinstance(n.body[0], ast.Expr) and isinstance(getattr(n.body[0], "value", None), ast.Constant)
        n.body = (n.body[:1] + _with_yields(n.body[1:])) if first_doc else _with_yields(n.body)
        return n
    visit_FunctionDef = _fn

    def generic_visit(self, n):
        super().generic_visit(n)
        if self.depth and not isinstance(n, (ast.FunctionDef, ast.AsyncFunctionDef, ast.ClassDef, ast.Module)):
            for field in ("body", "orelse", "finalbody"):
                v = getattr(n, field, None)
                if isinstance(v, list) and v and isinstance(v[0], ast.stmt):
                    setattr(n, field, _with_yields(v))
        return n


class Tx(ast.NodeTransformer):
    def visit_Call(self, n):
        self.generic_visit(n)
        if isinstance(n.func, ast.Name) and n.func.id == "super" and not n.args:
            return n          # zero-argument super() needs the compiler's __class__ cell: leave it alone
        if any(isinstance(a, ast.Starred) for a in n.args) or any(k.arg is None for k in n.keywords):
            # f(*a, **k): keep the call shape
            return ast.copy_location(
                ast.Call(func=ast.Name("__sx_call__", ast.Load()), args=[n.func] + n.args,
                         keywords=n.keywords), n)
        return ast.copy_location(
            ast.Call(func=ast.Name("__sx_call__", ast.Load()), args=[n.func] + n.args,
                     keywords=n.keywords), n)

    def visit_Subscript(self, n):
        self.generic_visit(n)
        if not isinstance(n.ctx, ast.Load):
            return n
        key = n.slice
        if isinstance(key, ast.Slice):
            none = ast.Constant(None)
            key = ast.Call(func=ast.Name("__sx_slice__", ast.Load()),
                           args=[key.lower or none, key.upper or none, key.step or none], keywords=[])
        elif isinstance(key, ast.Tuple) and any(isinstance(e, ast.Slice) for e in key.elts):
            return n
        return ast.copy_location(
            ast.Call(func=ast.Name("__sx_getitem__", ast.Load()), args=[n.value, key], keywords=[]), n)

    def visit_Assign(self, n):
        self.generic_visit(n)
        if len(n.targets) == 1 and isinstance(n.targets[0], ast.Subscript) and \
                not isinstance(n.targets[0].slice, (ast.Slice, ast.Tuple)):
            t = n.targets[0]
            return ast.copy_location(ast.Expr(ast.Call(func=ast.Name("__sx_setitem__", ast.Load()),
                                                       args=[t.value, t.slice, n.value], keywords=[])), n)
        return n

    def visit_AugAssign(self, n):
        self.generic_visit(n)
        if isinstance(n.target, ast.Subscript) and not isinstance(n.target.slice, (ast.Slice, ast.Tuple)) and \
                isinstance(n.target.value, ast.Name) and isinstance(n.target.slice, (ast.Name, ast.Constant)):
            t = n.target
            cur = ast.Call(func=ast.Name("__sx_getitem__", ast.Load()), args=[t.value, t.slice], keywords=[])
            val = ast.BinOp(left=cur, op=n.op, right=n.value)
            return ast.copy_location(ast.Expr(ast.Call(func=ast.Name("__sx_setitem__", ast.Load()),
                                                       args=[t.value, t.slice, val], keywords=[])), n)
        return n

    def visit_Delete(self, n):
        self.generic_visit(n)
        if len(n.targets) == 1 and isinstance(n.targets[0], ast.Subscript) and \
                not isinstance(n.targets[0].slice, (ast.Slice, ast.Tuple)):
            t = n.targets[0]
            return ast.copy_location(ast.Expr(ast.Call(func=ast.Name("__sx_delitem__", ast.Load()),
                                                       args=[t.value, t.slice], keywords=[])), n)
        return n

    def visit_Compare(self, n):
        self.generic_visit(n)
        if len(n.ops) == 1 and isinstance(n.ops[0], (ast.In, ast.NotIn)):
            return ast.copy_location(
                ast.Call(func=ast.Name("__sx_contains__", ast.Load()),
                         args=[n.left, n.comparators[0], ast.Constant(isinstance(n.ops[0], ast.NotIn))],
                         keywords=[]), n)
        return n

    def visit_IfExp(self, n):
        # arms are merged into one term only when evaluating both cannot have an effect (no calls, walrus, yield)
        pure = not any(isinstance(x, (ast.Call, ast.NamedExpr, ast.Yield, ast.YieldFrom, ast.Await))
                       for arm in (n.body, n.orelse) for x in ast.walk(arm))
        self.generic_visit(n)

        def lam(b):
            return ast.Lambda(args=ast.arguments(posonlyargs=[], args=[], kwonlyargs=[], kw_defaults=[],
                                                 defaults=[]), body=b)
        return ast.copy_location(
            ast.Call(func=ast.Name("__sx_ifexp__", ast.Load()), args=[n.test, lam(n.body), lam(n.orelse), ast.Constant(pure)],
                     keywords=[]), n)

    def visit_JoinedStr(self, n):
        self.generic_visit(n)
        parts = []
        for v in n.values:
            if isinstance(v, ast.FormattedValue):
                spec = v.format_spec if v.format_spec is not None else ast.Constant(None)
                parts.append(ast.Tuple(elts=[v.value, ast.Constant(v.conversion), spec], ctx=ast.Load()))
            else:
                parts.append(v)
        return ast.copy_location(
            ast.Call(func=ast.Name("__sx_fstr__", ast.Load()), args=parts, keywords=[]), n)

    def visit_FormattedValue(self, n):
        # handled by visit_JoinedStr (format_spec is itself a JoinedStr: visit it there)
        self.generic_visit(n)
        return n


# ------------------------------------------------------------------------------- intercepts
_INTERCEPT = {}          # id(callable) -> handler
_METHOD_INTERCEPT = {}   # (type, name) -> handler(self, *a, **k)
_KEEP = []               # keep intercepted objects alive so that id() stays unique


def intercept(obj):
    def deco(h):
        _INTERCEPT[id(obj)] = h
        _KEEP.append(obj)
        return h
    return deco


def register(obj, handler):
    _INTERCEPT[id(obj)] = handler
    _KEEP.append(obj)


def unregister(obj):
    _INTERCEPT.pop(id(obj), None)


def sx_len(x):
    if isinstance(x, (dict, set)) and id(x) in _SIDE:
        return len(x) + len(_SIDE[id(x)][1])
    return len(x)


def sx_isinstance(x, t):
    ts = t if isinstance(t, tuple) else (t,)
    for tt in ts:
        if tt is int and isinstance(x, SxInt):
            return True
        if tt is bool and isinstance(x, SxBool):
            return True
        if tt is bytes and isinstance(x, SxBytes) and not isinstance(x, SxByteArray):
            return True
        if tt is bytearray and isinstance(x, SxByteArray):
            return True
        if tt is str and (isinstance(x, (SxStr, SxChar)) or getattr(x, "_sx_strlike", False)):
            return True
        if tt is io.BytesIO and isinstance(x, SxReader):
            return True
    try:
        return isinstance(x, t)
    except TypeError:
        return isinstance(x, tuple(tt for tt in ts if isinstance(tt, type)))


def sx_type(x, *a):
    if a:
        return type(x, *a)
    if isinstance(x, SxInt):
        return int
    if isinstance(x, SxBool):
        return bool
    if isinstance(x, SxByteArray):
        return bytearray
    if isinstance(x, SxBytes):
        return bytes
    if isinstance(x, (SxStr, SxChar)) or getattr(x, "_sx_strlike", False):
        return str
    if isinstance(x, SxReader):
        return io.BytesIO
    return type(x)


def sx_int_from_bytes(b, byteorder="big", *, signed=False):
    if isinstance(b, SxReader):
        raise TypeError("cannot convert 'BytesIO' object to bytes")
    if not isinstance(b, SxBytes):
        return int.from_bytes(b, byteorder, signed=signed)
    if signed:
        raise Unsupported("signed from_bytes")
    if byteorder == "big":
        bs = b.bs
    elif byteorder == "little":
        bs = list(reversed(b.bs))
    else:
        raise ValueError("byteorder must be either 'little' or 'big'")
    if not bs:
        return 0
    sym = [x for x in bs if isinstance(x, SxInt)]
    if not sym:
        return int.from_bytes(bytes(bs), "big")
    # bytes that are exactly x.to_bytes(len) of one integer x give x back (keeps its interval and
    # avoids re-assembling the term from extracts)
    o0 = getattr(bs[0], "org", None)
    if o0 is not None and o0[2] == len(bs) and o0[1] == len(bs) - 1:
        x = o0[0]
        if all(isinstance(b, SxInt) and b.org is not None and b.org[0] is x and b.org[1] == len(bs) - 1 - j
               for j, b in enumerate(bs)):
            return x
    if sym[0].is_bv:
        parts = [x.ubits(8) if isinstance(x, SxInt) else z3.BitVecVal(x, 8) for x in bs]
        e = z3.Concat(*parts) if len(parts) > 1 else parts[0]
        lo = hi = 0
        for x in bs:
            xl, xh = (x.lo, x.hi) if isinstance(x, SxInt) else (x, x)
            lo, hi = lo * 256 + max(xl, 0), hi * 256 + min(xh, 255)
        return SxInt.bv(z3.ZeroExt(1, e), lo, hi)
    n = len(bs)
    e = z3.Sum([(x.to_int_mode().e if isinstance(x, SxInt) else z3.IntVal(x)) * (256 ** (n - 1 - i))
                for i, x in enumerate(bs)])
    return SxInt(e, 0, 256 ** n - 1)


class SxReader:
    """pure-Python stand-in for io.BytesIO over (possibly symbolic) bytes"""

    def __init__(self, b=b""):
        self.b = b
        self.pos = 0
        self.short_reads = 0

    def read(self, n=-1):
        rem = len(self.b) - self.pos
        if isinstance(n, SxInt):
            if bool(n < 0):
                n = rem
            elif bool(n >= rem):
                if bool(n > rem):
                    self.short_reads += 1
                n = rem
            else:
                n = concretize_small(n, 0, rem)
        elif n is None or n < 0:
            n = rem
        elif n > rem:
            self.short_reads += 1
            n = rem
        r = self.b[self.pos:self.pos + n]
        self.pos += n
        return r

    def tell(self):
        return self.pos

    def seek(self, pos, whence=0):
        if isinstance(pos, SxInt):
            pos = concretize_small(pos, 0, len(self.b))
        if whence == 0:
            self.pos = pos
        elif whence == 1:
            self.pos += pos
        else:
            self.pos = len(self.b) + pos
        self.pos = max(0, min(self.pos, len(self.b))) if whence != 0 else max(0, self.pos)
        return self.pos

    def getvalue(self):
        return self.b

    def getbuffer(self):
        return self.b

    def write(self, data):
        """io.BytesIO.write: overwrite / extend at the current position (zero fill when the position is past the end)"""
        if isinstance(data, SxBytes):
            d = list(data.bs)
        elif isinstance(data, (bytes, bytearray, memoryview)):
            d = list(bytes(data))
        else:
            raise TypeError("a bytes-like object is required, not '%s'" % type(data).__name__)
        cur = list(self.b.bs) if isinstance(self.b, SxBytes) else list(self.b)
        if self.pos > len(cur):
            cur.extend([0] * (self.pos - len(cur)))
        cur[self.pos:self.pos + len(d)] = d
        self.b = _mkbytes(cur)
        self.pos += len(d)
        return len(d)

    def truncate(self, size=None):
        size = self.pos if size is None else size
        self.b = self.b[:size]
        return size

    def close(self):
        pass

    def __enter__(self):
        return self

    def __exit__(self, *a):
        return False


def sx_bytesio(b=b""):
    # an empty stream is a writer in the making: it may be handed symbolic bytes later, which a native BytesIO cannot hold
    if isinstance(b, SxBytes) or (isinstance(b, (bytes, bytearray)) and len(b) == 0):
        return SxReader(b if isinstance(b, SxBytes) else b"")
    return io.BytesIO(b)


def sx_divmod(a, b):
    if isinstance(a, SxInt):
        return a.__divmod__(b)
    if isinstance(b, SxInt):
        raise Unsupported("division by a symbolic value")
    return divmod(a, b)


def sx_bytearray(x=b"", *a):
    if isinstance(x, SxInt):
        x = concretize_small(x, 0, 1 << 16)
    if isinstance(x, int) and not isinstance(x, bool):
        return SxByteArray([0] * x)
    if isinstance(x, SxBytes):
        return SxByteArray(x.bs)
    if isinstance(x, (SxStr, SxChar, str)):
        if not a:
            raise TypeError("string argument without an encoding")
        e = str_of(x).encode(*a) if not isinstance(x, str) else x.encode(*a)
        return SxByteArray(list(e.bs if isinstance(e, SxBytes) else e))
    return SxByteArray(list(bytearray(x, *a) if not isinstance(x, (list, tuple)) else x))


def sx_bytes(x=b"", *a):
    if isinstance(x, SxByteArray):
        return _mkbytes(x.bs)
    if isinstance(x, SxBytes):
        return x
    if isinstance(x, SxInt):
        n = concretize_small(x, 0, 4096)
        return bytes(n)
    if isinstance(x, (list, tuple)) and any(isinstance(v, SxInt) for v in x):
        return SxBytes(list(x))
    if isinstance(x, (SxStr, SxChar)):
        if not a:
            raise TypeError("string argument without an encoding")
        return str_of(x).encode(*a)
    if not isinstance(x, (bytes, bytearray, int, list, tuple, str, memoryview)) and hasattr(type(x), "__bytes__"):
        return type(x).__bytes__(x)
    return bytes(x, *a)


def sx_range(*a):
    if any(isinstance(v, SxInt) for v in a):
        # range(start, stop) with symbolic bounds whose distance is concrete: the elements are
        # start, start+1, ... (symbolic values, concrete count)
        if len(a) == 2 or (len(a) == 3 and a[2] == 1):
            start, stop = a[0], a[1]
            d = stop - start
            if isinstance(d, SxInt):
                e = z3.simplify(d.e)
                if z3.is_bv_value(e):
                    d = e.as_signed_long()
                elif z3.is_int_value(e):
                    d = e.as_long()
                else:
                    d = concretize_small(d, -1, 4096) if bool(d >= 0) else 0
            if isinstance(start, SxInt) or isinstance(stop, SxInt):
                return [start + j for j in range(max(d, 0))]
        a = [concretize_small(v, -(1 << 40), 1 << 40) if isinstance(v, SxInt) else v for v in a]
    return range(*a)


def sx_int(x=0, base=None):
    if isinstance(x, SxInt):
        if base is not None:
            raise TypeError("int() can't convert non-string with explicit base")
        return x
    if isinstance(x, SxBool):
        return sym_ite(x, 1, 0)
    if isinstance(x, SxFloat):
        return x.trunc()
    if isinstance(x, (SxStr, SxChar)):
        return parse_int(str_of(x), 10 if base is None else base)
    if base is None:
        return int(x)
    return int(x, base)


def parse_int(s, base):
    """exact model of int(text, base) for the numerals the repository produces; ASCII only"""
    its = s.items
    # a single unresolved numeral, optionally with concrete sign
    if len(its) == 1 and isinstance(its[0], Numeral) and its[0].base == base:
        return its[0].x
    if len(its) == 2 and its[0] == "-" and isinstance(its[1], Numeral) and its[1].base == base:
        return -its[1].x
    its = list(s._resolve())
    if all(isinstance(i, str) for i in its):
        return int("".join(its), base)
    digits = "0123456789abcdefghijklmnopqrstuvwxyz"[:base]
    # leading/trailing whitespace, sign and underscores: handled by forking on the character class
    ws = " \t\n\r\x0b\x0c"
    while its and bool(_char_in(its[0], ws)):
        its.pop(0)
    while its and bool(_char_in(its[-1], ws)):
        its.pop()
    neg = False
    if its and bool(_char_in(its[0], "+-")):
        neg = bool(its[0] == "-")
        its.pop(0)
    if not its:
        raise ValueError("invalid literal for int() with base %d" % base)
    val = 0
    prev_us = True     # underscore not allowed first
    for idx, ch in enumerate(its):
        if bool(ch == "_"):
            if prev_us or idx == len(its) - 1:
                raise ValueError("invalid literal for int() with base %d" % base)
            prev_us = True
            continue
        prev_us = False
        if isinstance(ch, str):
            d = digits.find(ch.lower())
            if d < 0:
                raise ValueError("invalid literal for int() with base %d" % base)
        else:
            if ch.alphabet is not None and all(c.lower() in digits for c in ch.possible()):
                if ch.alphabet.lower() == digits[:len(ch.alphabet)]:
                    d = ch.idx
                else:
                    d = None
                    r = digits.find(ch.alphabet[-1].lower())
                    for i in range(len(ch.alphabet) - 2, -1, -1):
                        r = sym_ite(ch.idx == i, digits.find(ch.alphabet[i].lower()), r)
                    d = r
            else:
                # arbitrary code point: ASCII digits/letters only; anything above 127 is outside the model
                c = ch.code()
                if not bool(c < 128):
                    raise Unsupported("int() of non-ASCII symbolic character")
                if bool((c >= 48) & (c <= 57)) if not isinstance((c >= 48), bool) else (48 <= c <= 57):
                    d = c - 48
                elif base > 10 and bool(((c | 32) >= 97) & ((c | 32) < 97 + base - 10)):
                    d = (c | 32) - 87
                else:
                    raise ValueError("invalid literal for int() with base %d" % base)
                if not isinstance(d, int) and bool(d >= base):
                    raise ValueError("invalid literal for int() with base %d" % base)
        val = val * base + d
    return -val if neg else val


def sx_str(x="", *a):
    if isinstance(x, SxInt):
        if bool(x < 0):
            return _mkstr(["-", Numeral(-x, 10)])
        return _mkstr([Numeral(x, 10)])
    if isinstance(x, (SxStr, SxChar)):
        return x
    if isinstance(x, SxBool):
        return "True" if bool(x) else "False"
    if isinstance(x, SxBytes) and a:
        return x.decode(*a)
    if isinstance(x, SxBytes):
        return "<bytes>"
    if not a and not isinstance(x, (str, bytes, int, float, bool, type(None), list, tuple, dict, set, type)):
        # user-defined __str__/__repr__ may legitimately produce symbolic text
        t = type(x)
        f = t.__dict__.get("__str__") or next((c.__dict__["__str__"] for c in t.__mro__ if "__str__" in c.__dict__
                                                and c is not object), None)
        if f is None:
            f = next((c.__dict__["__repr__"] for c in t.__mro__ if "__repr__" in c.__dict__ and c is not object), None)
        if f is not None and not isinstance(x, BaseException):
            r = f(x)
            if isinstance(r, (str, SxStr, SxChar)):
                return r
            raise TypeError("__str__ returned non-string (type %s)" % type(r).__name__)
    return str(x, *a)


def sx_repr(x):
    if is_sym(x):
        return sx_str(x)
    if not isinstance(x, (str, bytes, int, float, bool, type(None), list, tuple, dict, set, type)):
        f = next((c.__dict__["__repr__"] for c in type(x).__mro__ if "__repr__" in c.__dict__ and c is not object), None)
        if f is not None and not isinstance(x, BaseException):
            r = f(x)
            if isinstance(r, (str, SxStr, SxChar)):
                return r
            raise TypeError("__repr__ returned non-string (type %s)" % type(r).__name__)
    if isinstance(x, (list, tuple)) and has_sym(x):
        parts = []
        for v in x:
            if parts:
                parts.extend(", ")
            parts.extend(_items(sx_repr(v)))
        br = "[]" if isinstance(x, list) else "()"
        return _mkstr([br[0]] + parts + ([","] if isinstance(x, tuple) and len(x) == 1 else []) + [br[1]])
    return repr(x)


_IDS = {}


def sx_id(x):
    """id(obj): a fresh symbolic integer per object.  Objects whose lifetimes do not overlap may receive the same
    address from the allocator, so nothing is assumed about distinctness; a conclusion that needs two ids to
    coincide is confirmed (or not) by the native replay."""
    if isinstance(x, (int, str, bytes, bool, type(None), type)) or is_sym(x):
        return id(x)
    ent = _IDS.get(id(x))
    if ent is None:
        v = z3.BitVec("id!%d" % len(_IDS), 48)
        ent = _IDS[id(x)] = (x, SxInt.unsigned(v))
    return ent[1]


def sx_hex(x):
    if isinstance(x, SxInt):
        if bool(x < 0):
            return _mkstr(["-", "0", "x", Numeral(-x, 16)])
        return _mkstr(["0", "x", Numeral(x, 16)])
    return hex(x)


def sx_bin(x):
    if isinstance(x, SxInt):
        if bool(x < 0):
            return _mkstr(["-", "0", "b", Numeral(-x, 2)])
        return _mkstr(["0", "b", Numeral(x, 2)])
    return bin(x)


def sx_ord(c):
    if isinstance(c, SxChar):
        return c.code()
    if isinstance(c, SxStr):
        if len(c) != 1:
            raise TypeError("ord() expected a character")
        return sx_ord(c[0])
    return ord(c)


def sx_chr(i):
    if isinstance(i, SxInt):
        return SxChar(None, i)
    return chr(i)


def sx_any(it):
    for v in it:
        if v:
            return True
    return False


def sx_all(it):
    for v in it:
        if not v:
            return False
    return True


def sx_bool(x=False):
    if isinstance(x, SxBool):
        return x
    if isinstance(x, SxInt):
        return x != 0
    return bool(x)


def sx_fromhex(h):
    if isinstance(h, (SxStr, SxChar)):
        h = str_of(h)
        its = h.items
        # zero-padded numeral -> to_bytes
        if its and isinstance(its[-1], Numeral) and its[-1].base == 16 and \
                all(isinstance(i, str) and i == "0" for i in its[:-1]):
            num = its[-1]
            n = len(its) - 1 + num.digits()
            if n % 2:
                raise ValueError("non-hexadecimal number found in fromhex() arg")
            return num.x.to_bytes(n // 2, "big")
        its = list(h._resolve())
        out = []
        pend = None
        pend_org = None
        for ch in its:
            if pend is None and bool(_char_in(ch, " \t\n\r\x0b\x0c")):
                continue
            if isinstance(ch, str):
                pend_org = None
                d = HEXLOW.find(ch.lower())
                if d < 0:
                    raise ValueError("non-hexadecimal number found in fromhex() arg")
            elif ch.alphabet in (HEXLOW, HEXUP):
                d = ch.idx
                if pend is None and ch.org is not None and ch.org[1] == "hi":
                    pend_org = ch.org[0]
                elif pend is not None and pend_org is not None and ch.org is not None and ch.org[1] == "lo" \
                        and ch.org[0] is pend_org:
                    out.append(pend_org)       # both digits of one byte of bytes.hex(): the byte itself
                    pend = None
                    pend_org = None
                    continue
                else:
                    pend_org = None
            else:
                if not bool(_char_in(ch, HEXLOW + "ABCDEF")):
                    raise ValueError("non-hexadecimal number found in fromhex() arg")
                d = parse_int(SxStr([ch]), 16)
            if pend is None:
                pend = d
            else:
                out.append(pend * 16 + d)
                pend = None
        if pend is not None:
            raise ValueError("non-hexadecimal number found in fromhex() arg")
        return _mkbytes(out)
    return bytes.fromhex(h)


_SPEC_RE = re.compile(r"(?:(.)?([<>=^]))?([-+ ]?)(#?)(0?)(\d*)([bdxX]?)")


def sx_format_spec(val, spec):
    """format(<symbolic int>, spec) for the integer presentation types b, d, x, X with sign, '#', zero padding, fill,
    alignment and width; everything else (grouping, precision, other types) is outside the modelled subset"""
    if isinstance(val, SxBool):
        return format(int(bool(val)), spec)
    if not isinstance(val, SxInt):
        if is_sym(val) and spec in ("", "s"):
            return sx_str(val)
        if is_sym(val):
            m0 = re.fullmatch(r"(?:(.)?([<>^]))?(\d*)s?", spec)
            if m0 is None:
                raise Unsupported("format spec %r on symbolic text" % spec)
            body = str_of(sx_str(val))
            w = int(m0.group(3) or 0)
            fill, al = m0.group(1) or " ", m0.group(2) or "<"
            return {"<": body.ljust, ">": body.rjust, "^": body.center}[al](w, fill)
        return format(val, spec)
    m = _SPEC_RE.fullmatch(spec)
    if m is None:
        raise Unsupported("format spec %r on symbolic integer" % spec)
    fill, align, sign, alt, zero, width, typ = m.groups()
    width = int(width or 0)
    neg = bool(val < 0)
    mag = -val if neg else val
    base = {"b": 2, "d": 10, "": 10, "x": 16, "X": 16}[typ]
    digs = Numeral(mag, base, up=(typ == "X")).chars()
    prefix = list({"b": "0b", "x": "0x", "X": "0X"}.get(typ, "")) if alt else []
    sg = ["-"] if neg else ([sign] if sign in ("+", " ") and sign else [])
    if zero and not align:
        fill, align = "0", "="
    fill = fill or " "
    align = align or ">"
    body = prefix + digs
    pad = max(0, width - len(sg) - len(body))
    if align == "=":
        out = sg + prefix + [fill] * pad + digs
    elif align == "<":
        out = sg + body + [fill] * pad
    elif align == "^":
        out = [fill] * (pad // 2) + sg + body + [fill] * (pad - pad // 2)
    else:
        out = [fill] * pad + sg + body
    return _mkstr(out)


def sx_pow(base, exp, mod=None):
    """pow(): exact on concrete arguments and for small concrete exponents; modular exponentiation of a symbolic base
    with concrete exponent and modulus is an uninterpreted function of the base with values in [0, mod) (a deterministic
    function -- nothing else is assumed, so code that re-implements field arithmetic is explored but not decided)"""
    if not is_sym(base) and not is_sym(exp) and not is_sym(mod):
        return pow(base, exp) if mod is None else pow(base, exp, mod)
    if isinstance(exp, SxInt) or isinstance(mod, SxInt) or not isinstance(base, SxInt):
        raise Unsupported("pow with a symbolic exponent or modulus")
    if mod is None:
        if isinstance(exp, int) and 0 <= exp <= 8:
            r = 1
            for _ in range(exp):
                r = r * base
            return r
        raise Unsupported("pow of a symbolic base with a large exponent")
    if not isinstance(mod, int) or mod <= 0 or not isinstance(exp, int):
        raise Unsupported("pow variant")
    if 0 <= exp <= 3:
        r = 1
        for _ in range(exp):
            r = (r * base) % mod
        return r % mod
    core.CTX.incomplete.append("modular exponentiation of a symbolic base abstracted as an uninterpreted function")
    w = max(mod.bit_length(), 1)
    f = z3.Function("POWMOD_%x_%x" % (exp & 0xffffffff, mod & 0xffffffff), z3.IntSort(), z3.IntSort())
    b = base.to_int_mode()
    v = f(b.e)
    core.CTX.add(v >= 0, v < mod)
    return SxInt(v, 0, mod - 1)


def sx_round(x, nd=None):
    if isinstance(x, SxFloat):
        return x.__round__(nd)
    if isinstance(x, SxInt):
        if nd is not None and not (isinstance(nd, int) and nd >= 0):
            raise Unsupported("round(int, negative ndigits)")
        return x
    return round(x) if nd is None else round(x, nd)


def sx_float(x=0.0):
    if isinstance(x, SxInt):
        return SxFloat.of_int(x)
    if isinstance(x, SxFloat):
        return x
    return float(x)


def sx_format_builtin(val, spec=""):
    if is_sym(val) or is_sym(spec):
        if is_sym(spec):
            raise Unsupported("symbolic format spec")
        return sx_format_spec(val, spec)
    return format(val, spec)


def sx_format(fmt, *a, **k):
    """'..{}..'.format(args): exact for plain '{}' fields, otherwise symbolic values are rendered
    by str()"""
    if not any_sym(a, k):
        return fmt.format(*a, **k)
    import string
    out = []
    auto = 0
    for lit, field, spec, conv in string.Formatter().parse(fmt):
        out.extend(lit)
        if field is None:
            continue
        if field == "":
            val = a[auto]
            auto += 1
        elif field.isdigit():
            val = a[int(field)]
        elif field in k:
            val = k[field]
        else:
            raise Unsupported("format field %r" % field)
        if spec:
            if is_sym(val):
                out.extend(_items(sx_format_spec(val, spec)))
                continue
            out.extend(format(val, spec))
            continue
        if conv == "r" and is_sym(val):
            out.extend("<sym>")
            continue
        out.extend(_items(sx_str(val)) if is_sym(val) else list(str(val)))
    return _mkstr(out)


def sx_join(sep, parts):
    parts = list(parts)
    if not any(is_sym(p) for p in parts):
        return sep.join(parts)
    return SxStr(list(sep)).join(parts)


def sx_findall_dots(pattern, s):
    """re.findall('.' * k, text) -- the only regular expression in the repository"""
    import re
    if not is_sym(s):
        return re.findall(pattern, s)
    if not isinstance(pattern, str) or set(pattern) != {"."}:
        raise Unsupported("regular expression %r on symbolic text" % (pattern,))
    k = len(pattern)
    its = list(str_of(s)._resolve())
    for ch in its:
        if bool(ch == "\n"):
            raise Unsupported("newline in findall subject")
    return [_mkstr(its[i:i + k]) for i in range(0, len(its) - k + 1, k)]


def sx_b64encode(b, altchars=None):
    import base64
    if not isinstance(b, SxBytes):
        return base64.b64encode(b, altchars)
    if altchars is not None:
        raise Unsupported("b64 altchars")
    alpha = "ABCDEFGHIJKLMNOPQRSTUVWXYZabcdefghijklmnopqrstuvwxyz0123456789+/"
    out = []
    bs = b.bs
    for i in range(0, len(bs), 3):
        chunk = bs[i:i + 3]
        n = len(chunk)
        chunk = chunk + [0] * (3 - n)
        v = sx_int_from_bytes(_mkbytes(chunk) if not isinstance(_mkbytes(chunk), bytes) else bytes(chunk))
        if isinstance(v, int):
            import base64 as _b
            enc = _b.b64encode(bytes(chunk[:n])).decode()
            out.extend(enc)
            continue
        idx = [(v >> 18) & 63, (v >> 12) & 63, (v >> 6) & 63, v & 63]
        cs = [SxChar.of(alpha, j) for j in idx]
        if n == 1:
            cs = cs[:2] + ["=", "="]
        elif n == 2:
            cs = cs[:3] + ["="]
        out.extend(cs)
    return _B64Bytes(out)


class _B64Bytes:
    """result of b64encode on symbolic bytes: only .decode() is supported"""

    def __init__(self, chars):
        self.chars = chars

    def decode(self, *a, **k):
        return _mkstr(self.chars)


def _sx_sum(it, start=0):
    r = start
    for v in it:
        r = r + v
    return r


def _minmax(which, a, k):
    """min / max over explicit arguments or one iterable (dictionaries and sets with symbolic members included),
    with the default= keyword; key= only on concrete data"""
    if len(a) == 1:
        o = a[0]
        seq = list(o)
        if isinstance(o, (dict, set)) and id(o) in _SIDE:
            seq = seq + [e[0] for e in _SIDE[id(o)][1]]
        if not seq:
            if "default" in k:
                return k["default"]
            raise ValueError("%s() arg is an empty sequence" % which)
    else:
        seq = list(a)
    if any(is_sym(v) for v in seq):
        if k.get("key") is not None:
            raise Unsupported("%s with key= on symbolic values" % which)
        r = seq[0]
        for v in seq[1:]:
            r = v if bool((v > r) if which == "max" else (v < r)) else r
        return r
    k2 = {kk: vv for kk, vv in k.items() if kk != "default"}
    return max(seq, **k2) if which == "max" else min(seq, **k2)


def _sx_max(*a, **k):
    return _minmax("max", a, k)


def _sx_min(*a, **k):
    return _minmax("min", a, k)


def _install_builtin_intercepts():
    import re
    import base64
    register(len, sx_len)
    register(isinstance, sx_isinstance)
    register(type, sx_type)
    register(io.BytesIO, sx_bytesio)
    register(divmod, sx_divmod)
    register(bytes, sx_bytes)
    register(bytearray, sx_bytearray)
    register(range, sx_range)
    register(int, sx_int)
    register(str, sx_str)
    register(repr, sx_repr)
    register(id, sx_id)
    register(hex, sx_hex)
    register(bin, sx_bin)
    register(ord, sx_ord)
    register(chr, sx_chr)
    register(any, sx_any)
    register(all, sx_all)
    register(bool, sx_bool)
    register(sum, _sx_sum)
    register(max, _sx_max)
    register(min, _sx_min)
    register(re.findall, sx_findall_dots)
    register(base64.b64encode, sx_b64encode)
    register(format, sx_format_builtin)
    import math
    register(math.floor, lambda x: x.__floor__() if isinstance(x, SxFloat) else (x if isinstance(x, SxInt) else math.floor(x)))
    register(math.ceil, lambda x: x.__ceil__() if isinstance(x, SxFloat) else (x if isinstance(x, SxInt) else math.ceil(x)))
    register(math.trunc, lambda x: x.trunc() if isinstance(x, SxFloat) else (x if isinstance(x, SxInt) else math.trunc(x)))
    register(round, sx_round)
    register(pow, sx_pow)
    register(float, sx_float)


_install_builtin_intercepts()


def _realize(x):
    if isinstance(x, SxInt):
        return x.__index__()
    if isinstance(x, SxBool):
        return bool(x)
    if isinstance(x, SxBytes):
        return x.realize()
    if isinstance(x, (SxStr, SxChar)):
        return x.realize()
    if isinstance(x, SxReader):
        return io.BytesIO(_realize(x.b)[x.pos:] if not isinstance(x.b, bytes) else x.b[x.pos:])
    if isinstance(x, list):
        return [_realize(v) for v in x]
    if isinstance(x, tuple):
        return tuple(_realize(v) for v in x)
    if isinstance(x, dict):
        return {_realize(a): _realize(b) for a, b in x.items()}
    return x


def __sx_call__(f, *a, **k):
    if SCHED[0] is not None:
        __sx_yield__()
    h = _INTERCEPT.get(id(f))
    if h is not None:
        if has_sym(list(a)) or has_sym(list(k.values())):
            return h(*a, **k)
        try:
            return h(*a, **k)
        except (TypeError, ValueError, OverflowError, IndexError, KeyError) as e:
            # no symbolic argument: the model only delegates to the real builtin, the exception is CPython's own
            e._sx_model = True
            raise
    fn = getattr(f, "__func__", None)
    if fn is not None:
        h = _INTERCEPT.get(id(fn))
        if h is not None:
            return h(f.__self__, *a, **k)
    if isinstance(f, types.BuiltinMethodType):
        slf = getattr(f, "__self__", None)
        name = f.__name__
        if slf is int and name == "from_bytes":
            return sx_int_from_bytes(*a, **k)
        if slf is bytes and name == "fromhex":
            return sx_fromhex(*a, **k)
        if name == "join" and isinstance(slf, str) and len(a) == 1 and getattr(a[0], "_sx_opaque", False):
            from . import text as _text
            return _text.join_text(slf, a[0])
        if name == "join" and isinstance(slf, (str, bytes)) and len(a) == 1 and not isinstance(a[0], (list, tuple)):
            a = (list(a[0]),)          # generators: materialise before looking for symbolic parts
        if isinstance(slf, str):
            if any_sym(a, k):
                return _str_method(slf, name, a, k)
        elif isinstance(slf, (bytes, bytearray)):
            if any_sym(a, k):
                return _bytes_method(slf, name, a, k)
        elif isinstance(slf, list) and name == "index" and any_sym(a):
            for i, v in enumerate(slf):
                if bool(v == a[0]):
                    return i
            raise ValueError("not in list")
        elif isinstance(slf, dict) and name == "update" and a and not isinstance(a[0], dict):
            pairs = [tuple(p) for p in a[0]]          # iterators (zip, generators): materialise, then look at the keys
            if id(slf) in _SIDE or any(has_sym(p[0]) for p in pairs) or any(has_sym(v) for v in k):
                return _dict_method(slf, name, (pairs,) + tuple(a[1:]), k)
            return slf.update(pairs, **k)
        elif isinstance(slf, set) and (id(slf) in _SIDE or (a and has_sym(a[0]))):
            return _set_method(slf, name, a, k)
        elif isinstance(slf, dict) and (id(slf) in _SIDE or (a and has_sym(a[0])) or
                                        (name == "update" and a and isinstance(a[0], dict) and any(has_sym(kk) for kk in a[0]))):
            return _dict_method(slf, name, a, k)
        if any_sym(a, k) and not isinstance(slf, (list, dict, set)) and \
                (slf is None or isinstance(slf, types.ModuleType) or isinstance(slf, type)):
            # unmodelled C function receiving symbolic data: realise (run becomes incomplete)
            return f(*[_realize(v) for v in a], **{kk: _realize(v) for kk, v in k.items()})
    elif isinstance(f, type) and f.__module__ in ("builtins",) and any_sym(a, k) and f not in (list, tuple, dict, set, slice, enumerate, zip, reversed, object, super, Exception, ValueError, TypeError, KeyError, IndexError, RuntimeError, AssertionError, OverflowError, SyntaxError, NotImplementedError):
        if issubclass(f, BaseException):
            return f(*a, **k)
        return f(*[_realize(v) for v in a], **{kk: _realize(v) for kk, v in k.items()})
    return f(*a, **k)


def _str_method(slf, name, a, k):
    if name == "format":
        return sx_format(slf, *a, **k)
    if name == "join":
        return sx_join(slf, *a)
    if name in ("index", "find", "rfind", "rindex") and len(a) == 1 and isinstance(a[0], (SxChar, SxStr)):
        ch = a[0]
        if isinstance(ch, SxStr):
            if len(ch) != 1:
                raise Unsupported("str.%s of a multi-character symbolic string" % name)
            ch = ch[0]
        if isinstance(ch, str):
            return getattr(slf, name)(ch)
        if ch.alphabet == slf and len(set(slf)) == len(slf):
            return ch.idx
        present = _char_in(ch, slf)
        if not bool(present):
            if name in ("index", "rindex"):
                raise ValueError("substring not found")
            return -1
        # position as one merged term (no fork per alphabet entry)
        order = list(range(len(slf))) if name in ("index", "find") else list(range(len(slf) - 1, -1, -1))
        r = order[-1]
        for i in reversed(order[:-1]):
            r = sym_ite(ch == slf[i], i, r)
        return r
    if name in ("startswith", "endswith", "count", "replace", "split", "strip", "lstrip", "rstrip", "zfill",
                "ljust", "rjust", "center", "encode"):
        return getattr(SxStr(list(slf)), name)(*a, **k)
    if name in ("__eq__", "__ne__", "__add__", "__mul__", "__contains__"):
        return getattr(SxStr(list(slf)), name)(*a, **k)
    raise Unsupported("str.%s with symbolic argument" % name)


def _bytes_method(slf, name, a, k):
    if name == "join":
        out = []
        first = True
        for p in a[0]:
            if not first:
                out.extend(slf)
            first = False
            out.extend(p.bs if isinstance(p, SxBytes) else list(p))
        return _mkbytes(out)
    if name in ("startswith", "endswith"):
        return getattr(SxBytes(list(slf)), name)(*a, **k)
    raise Unsupported("bytes.%s with symbolic argument" % name)


# ---- dictionaries (and memo caches) whose keys contain symbolic values -------------------------
# A native dict cannot hash a symbolic key.  Entries with such keys live in a side list; every
# lookup compares the wanted key with the stored ones through the solver (a fork per candidate),
# which is exactly Python's "hash equal and ==" semantics for values that may or may not coincide.
_SIDE = {}        # id(dict) -> (dict, [[key, value], ...])
_MEMOS = []


def _side(o, create=False):
    ent = _SIDE.get(id(o))
    if ent is None and create:
        ent = _SIDE[id(o)] = (o, [])
    return ent[1] if ent else None


def _keq(a, b):
    r = eq_term(a, b)
    return r if isinstance(r, bool) else bool(SxBool(r))


def _dict_find(o, k):
    """-> ('native', key) | ('side', entry) | None"""
    side = _side(o)
    if not has_sym(k):
        try:
            if k in o:
                return ("native", k)
        except TypeError:
            pass
    else:
        for nk in list(o.keys() if isinstance(o, dict) else o):
            if _keq(k, nk):
                return ("native", nk)
    if side:
        for ent in side:
            if _keq(k, ent[0]):
                return ("side", ent)
    return None


def _dict_sym(o, k=None):
    return isinstance(o, dict) and (has_sym(k) or id(o) in _SIDE)


def _set_sym(o, k=None):
    return isinstance(o, set) and (has_sym(k) or id(o) in _SIDE)


def _set_method(o, name, a, k):
    """sets whose members contain symbolic values: members live in the same side list as symbolic dict keys
    (entry [member, None]); membership is decided through the solver, a fork per candidate"""
    side = _side(o) or []
    if name == "add":
        if _dict_find(o, a[0]) is None:
            if has_sym(a[0]):
                _side(o, True).append([a[0], None])
            else:
                o.add(a[0])
        return None
    if name in ("discard", "remove"):
        hit = _dict_find(o, a[0])
        if hit is None:
            if name == "remove":
                raise KeyError("symbolic member")
            return None
        if hit[0] == "native":
            o.discard(hit[1])
        else:
            _side(o).remove(hit[1])
        return None
    if name == "__contains__":
        return _dict_find(o, a[0]) is not None
    if name == "clear":
        o.clear()
        del side[:]
        return None
    if name == "update":
        for other in a:
            for m in list(other):
                _set_method(o, "add", (m,), {})
        return None
    if name == "pop":
        if side:
            return side.pop()[0]
        return o.pop()
    raise Unsupported("set.%s on a set with symbolic members" % name)


def __sx_setitem__(o, k, v):
    if _dict_sym(o, k):
        hit = _dict_find(o, k)
        if hit is None:
            if has_sym(k):
                _side(o, True).append([k, v])
            else:
                o[k] = v
        elif hit[0] == "native":
            o[hit[1]] = v
        else:
            hit[1][1] = v
        return
    if isinstance(k, SxInt) and isinstance(o, list):
        k = concretize_small(k, -len(o), len(o) - 1)
    o[k] = v


def __sx_delitem__(o, k):
    if _dict_sym(o, k):
        hit = _dict_find(o, k)
        if hit is None:
            raise KeyError("symbolic key")
        if hit[0] == "native":
            del o[hit[1]]
        else:
            _side(o).remove(hit[1])
        return
    del o[k]


def _dict_get(o, k, default=None, strict=False):
    hit = _dict_find(o, k)
    if hit is None:
        if strict:
            raise KeyError("symbolic key")
        return default
    return o[hit[1]] if hit[0] == "native" else hit[1][1]


def _dict_method(o, name, a, k):
    side = _side(o) or []
    if name == "get":
        return _dict_get(o, *a)
    if name == "setdefault":
        hit = _dict_find(o, a[0])
        if hit is None:
            __sx_setitem__(o, a[0], a[1] if len(a) > 1 else None)
            return a[1] if len(a) > 1 else None
        return o[hit[1]] if hit[0] == "native" else hit[1][1]
    if name == "pop":
        hit = _dict_find(o, a[0])
        if hit is None:
            if len(a) > 1:
                return a[1]
            raise KeyError("symbolic key")
        if hit[0] == "native":
            return o.pop(hit[1])
        _side(o).remove(hit[1])
        return hit[1][1]
    if name == "items":
        return list(o.items()) + [(e[0], e[1]) for e in side]
    if name == "keys":
        return list(o.keys()) + [e[0] for e in side]
    if name == "values":
        return list(o.values()) + [e[1] for e in side]
    if name == "clear":
        o.clear()
        del side[:]
        return None
    if name == "__contains__":
        return _dict_find(o, a[0]) is not None
    if name == "move_to_end":
        hit = _dict_find(o, a[0])
        if hit is None:
            raise KeyError("symbolic key")
        if hit[0] == "native":
            o.move_to_end(hit[1], *a[1:], **k)
        else:
            side.remove(hit[1])
            (side.append if (a[1] if len(a) > 1 else k.get("last", True)) else (lambda e: side.insert(0, e)))(hit[1])
        return None
    if name == "popitem":
        last = a[0] if a else k.get("last", True)
        if (last and side) or (not last and not len(o) and side):
            e = side.pop(-1 if last else 0)
            return (e[0], e[1])
        if len(o):
            try:
                return o.popitem(last) if a or k else o.popitem()
            except TypeError:
                return o.popitem()
        raise KeyError("popitem(): dictionary is empty")
    if name == "copy":
        raise Unsupported("copy of a dictionary with symbolic keys")
    if name == "update":
        other = a[0] if a else {}
        for kk, vv in (other.items() if isinstance(other, dict) else other):
            __sx_setitem__(o, kk, vv)
        for kk, vv in k.items():
            __sx_setitem__(o, kk, vv)
        return None
    raise Unsupported("dict.%s on a dictionary with symbolic keys" % name)


def sx_lru_cache(maxsize=128, typed=False):
    """functools.lru_cache / cache with symbolic-aware key comparison (unbounded)"""
    if callable(maxsize) and not isinstance(maxsize, int):
        return _memo(maxsize)
    return _memo


def _memo(fn):
    import functools
    store = {}
    _MEMOS.append(store)

    @functools.wraps(fn)
    def wrapper(*a, **k):
        key = (tuple(a), tuple(sorted(k.items())))
        if _dict_sym(store, key):
            hit = _dict_find(store, key)
            if hit is not None:
                return store[hit[1]] if hit[0] == "native" else hit[1][1]
            v = fn(*a, **k)
            __sx_setitem__(store, key, v)
            return v
        try:
            if key in store:
                return store[key]
        except TypeError:
            return fn(*a, **k)
        v = store[key] = fn(*a, **k)
        return v
    wrapper.cache_clear = store.clear
    wrapper.cache_info = lambda: None
    wrapper.__wrapped__ = fn
    return wrapper


# ---- per-path reset of process-wide mutable state ---------------------------------------------
_SNAP = []


_SNAP_ATTRS = []      # (owner, {name: value}) for modules and classes of the repository


def snapshot_globals(modules):
    """remember module-level / class-level state of the repository -- the contents of containers and the bindings of
    every plain attribute (e.g. a class-level 'last value' memo) -- so that every explored path starts from the state
    a fresh process would have"""
    del _SNAP[:]
    del _SNAP_ATTRS[:]
    seen = set()
    for m in modules:
        _SNAP_ATTRS.append((m, {n: v for n, v in vars(m).items() if not n.startswith("__")}))
        for name, v in list(vars(m).items()):
            if name.startswith("__"):
                continue
            _snap_obj(v, seen)
            if isinstance(v, type) and getattr(v, "__module__", None) == m.__name__:
                _SNAP_ATTRS.append((v, {n: x for n, x in vars(v).items() if not n.startswith("__")}))
                for an, av in list(vars(v).items()):
                    if not an.startswith("__"):
                        _snap_obj(av, seen)


def _restore_attrs():
    for owner, saved in _SNAP_ATTRS:
        cur = vars(owner)
        for n in [n for n in cur if not n.startswith("__") and n not in saved and n not in HOOKS]:
            try:
                delattr(owner, n)
            except (AttributeError, TypeError):
                pass
        for n, v in saved.items():
            if cur.get(n, _MISSING) is not v:
                try:
                    setattr(owner, n, v)
                except (AttributeError, TypeError):
                    pass


_MISSING = object()


def _snap_obj(v, seen):
    if isinstance(v, (dict, list, set)) and id(v) not in seen:
        seen.add(id(v))
        import copy
        _SNAP.append((v, copy.copy(v)))


def reset_path_state():
    _SIDE.clear()
    _IDS.clear()
    _restore_attrs()
    for st in _MEMOS:
        st.clear()
    for obj, cp in _SNAP:
        if isinstance(obj, dict):
            if obj != cp or len(obj) != len(cp):
                obj.clear()
                obj.update(cp)
        elif isinstance(obj, list):
            if len(obj) != len(cp) or any(a is not b for a, b in zip(obj, cp)):
                obj[:] = cp
        else:
            if obj != cp:
                obj.clear()
                obj.update(cp)


core.PATH_HOOKS.append(reset_path_state)
import functools as _functools
register(_functools.lru_cache, sx_lru_cache)
if hasattr(_functools, "cache"):
    register(_functools.cache, _memo)


def __sx_slice__(a, b, c):
    return slice(a, b, c)


def __sx_getitem__(o, k):
    if hasattr(type(o), "__sx_getitem__"):
        return o.__sx_getitem__(k)
    if isinstance(o, dict) and (_SIDE or has_sym(k)) and _dict_sym(o, k):
        return _dict_get(o, k, strict=True)
    if isinstance(k, SxInt):
        if isinstance(o, (SxBytes, SxStr, SxChar, SxReader)):
            return o[k]
        if isinstance(o, (str, list, tuple, bytes)):
            n = len(o)
            if k.lo is not None and k.lo == k.hi:
                return o[k.lo]
            if bool(k >= n) or bool(k < -n):
                raise IndexError("index out of range")
            if isinstance(o, str):
                if bool(k >= 0):
                    return SxChar.of(o, k)
                return SxChar.of(o, k + n)
            if isinstance(o, bytes):
                idx = concretize_small(k, -n, n - 1)
                return o[idx]
            # list / tuple of values: merge integers into an ite-chain, otherwise enumerate
            if all(isinstance(v, (int, SxInt)) and not isinstance(v, bool) for v in o) and n <= 64 and bool(k >= 0):
                r = o[-1]
                for i in range(n - 2, -1, -1):
                    r = sym_ite(k == i, o[i], r)
                return r
            idx = concretize_small(k, -n, n - 1)
            return o[idx]
        if isinstance(o, dict):
            return _dict_lookup_merged(o, k)
        return o[k.__index__()]
    if isinstance(k, slice):
        if isinstance(o, (str, bytes, list, tuple)) and any(isinstance(v, SxInt) for v in (k.start, k.stop, k.step)):
            n = len(o)
            k = slice(*[concretize_small(v, -n - 1, n + 1) if isinstance(v, SxInt) else v
                        for v in (k.start, k.stop, k.step)])
        return o[k]
    if isinstance(o, dict) and is_sym(k):
        return _dict_lookup_merged(o, k)
    return o[k]


def _dict_lookup_merged(o, k):
    """d[k] for a symbolic scalar key in a concrete dictionary.  When every value is an integer the lookup is ONE merged
    term (an if-then-else chain over the entries) after a single fork on "key present"; otherwise one fork per entry."""
    items = list(o.items())
    if items and isinstance(k, (SxChar, SxInt)) and all(isinstance(v, int) and not isinstance(v, bool) for _, v in items) \
            and len(items) <= 512:
        if isinstance(k, SxChar) and all(isinstance(kk, str) and len(kk) == 1 for kk, _ in items):
            present = _char_in(k, "".join(kk for kk, _ in items))
        else:
            present = mkbool(z3.Or(*[z3bool(k == kk) for kk, _ in items]))
        if not bool(present):
            raise KeyError(k)
        r = items[-1][1]
        for kk, vv in reversed(items[:-1]):
            r = sym_ite(k == kk, vv, r)
        return r
    for kk, vv in items:
        if bool(k == kk):
            return vv
    raise KeyError(k)


def __sx_contains__(item, cont, neg):
    r = _contains(item, cont)
    if isinstance(r, SxBool):
        return ~r if neg else r
    return (not r) if neg else r


def _contains(item, cont):
    if isinstance(cont, str):
        if isinstance(item, SxChar):
            return _char_in(item, cont)
        if isinstance(item, SxStr):
            if len(item) == 1:
                return _char_in(item[0], cont)
            if len(item) == 0:
                return True
            n = len(item)
            if n > len(cont):
                return False
            return mkbool(z3.Or(*[item.eq_expr(cont[i:i + n]) for i in range(len(cont) - n + 1)]))
        return item in cont
    if isinstance(cont, (SxStr, SxChar)):
        cont = str_of(cont)
        its = cont._resolve()
        if isinstance(item, (str, SxStr, SxChar)):
            n = len(item)
            if n == 0:
                return True
            if n > len(its):
                return False
            return mkbool(z3.Or(*[z3bool(_mkstr(its[i:i + n], force=True) == item)
                                  for i in range(len(its) - n + 1)]))
        raise TypeError("'in <string>' requires string as left operand")
    if isinstance(cont, set) and _set_sym(cont, item):
        return _dict_find(cont, item) is not None
    if isinstance(cont, (tuple, list, set, frozenset)):
        if is_sym(item) or any(is_sym(c) for c in cont):
            for c in cont:
                if bool(item == c):
                    return True
            return False
        return item in cont
    if isinstance(cont, dict) and _dict_sym(cont, item):
        return _dict_find(cont, item) is not None
    if isinstance(cont, (dict, type({}.keys()), type({}.values()))):
        if is_sym(item):
            for c in cont:
                if bool(item == c):
                    return True
            return False
        return item in cont
    if isinstance(cont, SxBytes):
        if isinstance(item, (int, SxInt)):
            for c in cont.bs:
                if bool(item == c):
                    return True
            return False
        raise Unsupported("subsequence test on symbolic bytes")
    if isinstance(cont, bytes) and isinstance(item, SxInt):
        return mkbool(z3.Or(*[z3bool(item == c) for c in set(cont)])) if cont else False
    if isinstance(cont, range) and isinstance(item, SxInt):
        if cont.step == 1:
            return (item >= cont.start) & (item < cont.stop) if not isinstance(item >= cont.start, bool) or not isinstance(item < cont.stop, bool) else ((item >= cont.start) and (item < cont.stop))
        raise Unsupported("range with step")
    return item in cont


def __sx_ifexp__(t, fa, fb, pure=False):
    if isinstance(t, SxInt):
        t = (t != 0)
    if isinstance(t, SxBool) and not pure:
        return fa() if bool(t) else fb()
    if isinstance(t, SxBool):
        # merge only when both arms are side-effect-free integers; evaluating both arms of the
        # repository's conditional expressions is safe because arms that raise are re-run under a fork
        try:
            a = fa()
            b = fb()
        except Exception:
            return fa() if bool(t) else fb()
        if isinstance(a, (int, SxInt)) and isinstance(b, (int, SxInt)) and \
                not isinstance(a, bool) and not isinstance(b, bool):
            return sym_ite(t, a, b)
        return a if bool(t) else b
    return fa() if t else fb()


def __sx_fstr__(*parts):
    out = []
    for p in parts:
        if isinstance(p, tuple):
            val, conv, spec = p
            if is_sym(val):
                if conv == ord("r"):
                    raise Unsupported("f-string !r on symbolic value")
                if spec not in (None, ""):
                    if is_sym(spec):
                        raise Unsupported("symbolic f-string spec")
                    out.extend(_items(sx_format_spec(val, spec)))
                else:
                    out.extend(_items(sx_str(val)))
            else:
                if conv == ord("r"):
                    val = repr(val)
                elif conv == ord("s"):
                    val = str(val)
                elif conv == ord("a"):
                    val = ascii(val)
                out.extend(format(val, spec or ""))
        else:
            out.extend(_items(p) if is_sym(p) else list(p))
    return _mkstr(out)


# ---- thread switches as a solver variable ----------------------------------------------------------
# One pre-emption: operation A runs; at one of its yield points (before a statement / before a call of repository
# code) the whole of operation B runs, then A continues.  WHICH point is a solver variable k: at the n-th point the
# engine forks on (k == n).  This is the schedule "thread 1 is pre-empted at point k, thread 2 runs to completion,
# thread 1 resumes"; the repository uses no locks and no thread-local state, so running B nested inside A's frame is
# indistinguishable, for the shared state, from running it on another thread.
class Sched:
    def __init__(self, k, other):
        self.k = k                # SxInt: the pre-emption point (0 = never inside A)
        self.other = other        # callable: operation B
        self.count = 0
        self.fired = False
        self.inside = False
        self.result = None
        self.error = None


SCHED = [None]


def __sx_yield__():
    sch = SCHED[0]
    if sch is None or sch.inside or sch.fired:
        return
    sch.count += 1
    if core.CTX.free_choice(sch.k.e == sch.count):
        sch.fired = True
        sch.inside = True
        try:
            sch.result = sch.other()
        finally:
            sch.inside = False


def _reset_sched():
    SCHED[0] = None


core.PATH_HOOKS.append(_reset_sched)


def run_preempted(k, op_a, op_b):
    """-> (result of A, result of B, number of yield points of A).  B runs at A's k-th yield point, or after A when k is 0
    or beyond A's last point."""
    sch = Sched(k, op_b)
    SCHED[0] = sch
    try:
        ra = op_a()
    finally:
        SCHED[0] = None
    if not sch.fired:
        sch.result = op_b()
    return ra, sch.result, sch.count


HOOKS = dict(__sx_yield__=__sx_yield__, __sx_call__=__sx_call__, __sx_getitem__=__sx_getitem__, __sx_contains__=__sx_contains__,
             __sx_setitem__=__sx_setitem__, __sx_delitem__=__sx_delitem__,
             __sx_ifexp__=__sx_ifexp__, __sx_slice__=__sx_slice__, __sx_fstr__=__sx_fstr__)


# ------------------------------------------------------------------------------- import hook
class Finder(importlib.abc.MetaPathFinder, importlib.abc.Loader):
    def __init__(self, root, pkgs, skip=()):
        self.root = root
        self.pkgs = pkgs
        self.skip = skip
        self.sources = {}

    def find_spec(self, name, path, target=None):
        top = name.split(".")[0]
        if top not in self.pkgs:
            return None
        rel = name.replace(".", "/")
        p = os.path.join(self.root, rel)
        if os.path.isdir(p):
            return importlib.util.spec_from_file_location(
                name, os.path.join(p, "__init__.py"), loader=self, submodule_search_locations=[p])
        if os.path.exists(p + ".py"):
            return importlib.util.spec_from_file_location(name, p + ".py", loader=self)
        return None

    def create_module(self, spec):
        return None

    def exec_module(self, module):
        path = module.__spec__.origin
        src = open(path, encoding="utf-8").read()
        self.sources[module.__name__] = (path, hashlib.sha256(src.encode()).hexdigest()[:16], src.count("\n") + 1)
        tree = ast.parse(src, path)
        if not any(s in module.__name__ for s in self.skip):
            tree = Tx().visit(tree)
            if YIELD_POINTS:
                tree = YieldTx().visit(tree)
            tree = ast.fix_missing_locations(tree)
        code = compile(tree, path, "exec")
        module.__dict__.update(HOOKS)
        exec(code, module.__dict__)


_FINDER = None


def install(root=None, pkgs=(PKG,), skip=("bip39_wordlist", ".op")):
    """(re)load the repository package through the instrumenting hook"""
    global _FINDER
    root = root or REPO
    for m in [m for m in sys.modules if m.split(".")[0] in pkgs]:
        del sys.modules[m]
    if _FINDER is not None and _FINDER in sys.meta_path:
        sys.meta_path.remove(_FINDER)
    _FINDER = Finder(root, pkgs, skip)
    sys.meta_path.insert(0, _FINDER)
    return _FINDER


def load_instrumented_file(path, name):
    """load one extra python file (e.g. /verif/spec/x.py, stdlib random.py) through the hook"""
    src = open(path, encoding="utf-8").read()
    tree = ast.fix_missing_locations(Tx().visit(ast.parse(src, path)))
    mod = types.ModuleType(name)
    mod.__file__ = path
    mod.__dict__.update(HOOKS)
    exec(compile(tree, path, "exec"), mod.__dict__)
    return mod


def encoded_sources():
    return dict(_FINDER.sources) if _FINDER else {}


# ---- struct (pack/unpack of fixed layouts) -----------------------------------------------------
import struct as _struct
import re as _re

_ST_SIZES = {"x": 1, "c": 1, "b": 1, "B": 1, "?": 1, "h": 2, "H": 2, "i": 4, "I": 4, "l": 4, "L": 4, "q": 8, "Q": 8}


def _st_parse(fmt):
    if isinstance(fmt, bytes):
        fmt = fmt.decode()
    order = "big"
    if fmt and fmt[0] in "@=<>!":
        if fmt[0] == "<":
            order = "little"
        elif fmt[0] in "@=":
            import sys as _s
            order = _s.byteorder
            if fmt[0] == "@":
                raise Unsupported("struct native alignment on symbolic data")
        fmt = fmt[1:]
    items = []
    for cnt, code in _re.findall(r"\s*(\d*)([xcbB?hHiIlLqQsp])", fmt):
        n = int(cnt) if cnt else 1
        if code in "sp":
            items.append((code, n))
        else:
            items.extend([(code, 1)] * n)
    return order, items


def _st_size(items):
    return sum(n if c in "sp" else _ST_SIZES[c] for c, n in items)


def sx_struct_unpack(fmt, data):
    if not isinstance(data, SxBytes):
        return _struct.unpack(fmt, data)
    order, items = _st_parse(fmt)
    if _st_size(items) != len(data):
        raise _struct.error("unpack requires a buffer of %d bytes" % _st_size(items))
    out = []
    pos = 0
    for code, n in items:
        if code == "s":
            out.append(data[pos:pos + n])
            pos += n
            continue
        sz = _ST_SIZES[code]
        chunk = data[pos:pos + sz]
        pos += sz
        if code == "x":
            continue
        v = sx_int_from_bytes(chunk, order)
        if code in "bhilq" and not isinstance(v, int):
            v = sym_ite(v >= (1 << (8 * sz - 1)), v - (1 << (8 * sz)), v)
        elif code in "bhilq":
            v = v - (1 << (8 * sz)) if v >= (1 << (8 * sz - 1)) else v
        elif code == "?":
            v = v != 0
        elif code == "c":
            v = chunk
        out.append(v)
    return tuple(out)


def sx_struct_pack(fmt, *vals):
    if not any_sym(vals):
        return _struct.pack(fmt, *vals)
    order, items = _st_parse(fmt)
    out = b""
    vi = 0
    for code, n in items:
        if code == "x":
            out = out + b"\x00"
            continue
        v = vals[vi]
        vi += 1
        if code == "s":
            b = v[:n]
            out = out + b + b"\x00" * (n - len(b))
            continue
        sz = _ST_SIZES[code]
        if code in "bhilq":
            if bool(v < -(1 << (8 * sz - 1))) or bool(v >= (1 << (8 * sz - 1))):
                raise _struct.error("argument out of range")
            v = sym_ite(v < 0, v + (1 << (8 * sz)), v) if isinstance(v, SxInt) else (v + (1 << (8 * sz)) if v < 0 else v)
        elif code == "?":
            v = sym_ite(v, 1, 0) if isinstance(v, SxBool) else int(bool(v))
        else:
            if bool(v < 0) or bool(v >= (1 << (8 * sz))):
                raise _struct.error("argument out of range")
        out = out + (v.to_bytes(sz, order) if not isinstance(v, (bytes, SxBytes)) else v)
    return out


class SxStruct:
    def __init__(self, fmt):
        self.format = fmt
        self.size = _struct.calcsize(fmt)

    def unpack(self, data):
        return sx_struct_unpack(self.format, data)

    def unpack_from(self, data, offset=0):
        return sx_struct_unpack(self.format, data[offset:offset + self.size])

    def pack(self, *vals):
        return sx_struct_pack(self.format, *vals)


register(_struct.unpack, sx_struct_unpack)
register(_struct.pack, sx_struct_pack)
register(_struct.Struct, SxStruct)
