"""sx.values -- symbolic stand-ins for int / bool / bytes / str.

SxInt has two flavours:
  * BV  : z3 bit-vector read as a *signed* number, together with a concrete interval [lo, hi]
          that is guaranteed to contain the value.  The width always suffices to hold the exact
          (unbounded, Python) result, so no operation ever wraps: + widens, & with a mask
          narrows again.  Non-negative values carry a zero top bit.
  * Int : z3 Int (mathematical integer), optional interval.  to_bytes / divmod introduce
          definitional fresh variables instead of div/mod terms.
"""
import z3
from . import core
from .core import Unsupported, UnwindLimit


def C():
    c = core.CTX
    if c is None:
        raise Unsupported("symbolic value used outside an exploration")
    return c


def is_sym(x):
    return isinstance(x, (SxInt, SxBool, SxBytes, SxStr, SxChar, WordItem, SxFloat))


def any_sym(args, kwargs=None):
    for a in args:
        if is_sym(a):
            return True
        if isinstance(a, (list, tuple)) and any(is_sym(v) for v in a):
            return True
    if kwargs:
        return any_sym(list(kwargs.values()))
    return False


# --------------------------------------------------------------------------------------- bool
class SxBool:
    __slots__ = ("e", "ref")

    def __init__(self, e, ref=None):
        self.e = e
        self.ref = ref        # (z3 ast id of an integer term, op, constant): lets a taken branch
                              # narrow the interval known for that term on the rest of the path

    def __bool__(self):
        c = C()
        r = c.decide(self.e)
        if self.ref is not None:
            _refine(c, self.ref, r)
        return r

    def __invert__(self):
        return SxBool(z3.Not(self.e))

    def __and__(self, o):
        return SxBool(z3.And(self.e, _b(o)))
    __rand__ = __and__

    def __or__(self, o):
        return SxBool(z3.Or(self.e, _b(o)))
    __ror__ = __or__

    def __eq__(self, o):
        if isinstance(o, (bool, SxBool)):
            return SxBool(self.e == _b(o))
        return False

    def __ne__(self, o):
        if isinstance(o, (bool, SxBool)):
            return SxBool(self.e != _b(o))
        return True
    __hash__ = None


def _b(x):
    if isinstance(x, SxBool):
        return x.e
    if isinstance(x, bool):
        return z3.BoolVal(x)
    if isinstance(x, z3.BoolRef):
        return x
    raise Unsupported("not a boolean: %r" % (x,))


def mkbool(e, ref=None):
    """z3 bool -> python bool when it is syntactically a constant, else SxBool.  (No z3.simplify here:
    simplifying a small comparison over a huge shared term costs a traversal of that term each time;
    the path manager simplifies once when the condition is actually decided.)"""
    if z3.is_true(e):
        return True
    if z3.is_false(e):
        return False
    return SxBool(e, ref)


def z_and(cs):
    out = []
    for c in cs:
        if isinstance(c, bool):
            if not c:
                return z3.BoolVal(False)
            continue
        if z3.is_true(c):
            continue
        if z3.is_false(c):
            return z3.BoolVal(False)
        out.append(c)
    if not out:
        return z3.BoolVal(True)
    return out[0] if len(out) == 1 else z3.And(*out)


_NEG = {"lt": "ge", "ge": "lt", "le": "gt", "gt": "le", "eq": "ne", "ne": "eq"}


def _refine(c, ref, taken):
    term, op, k = ref
    tid = term.get_id()
    if not taken:
        op = _NEG[op]
    d = c.env.setdefault("refined", {})
    c.env.setdefault("refined_keep", []).append(term)     # pins the AST so its id is not reused
    lo, hi = d.get(tid, (None, None))
    if op == "lt":
        hi = k - 1 if hi is None else min(hi, k - 1)
    elif op == "le":
        hi = k if hi is None else min(hi, k)
    elif op == "gt":
        lo = k + 1 if lo is None else max(lo, k + 1)
    elif op == "ge":
        lo = k if lo is None else max(lo, k)
    elif op == "eq":
        lo = k if lo is None else max(lo, k)
        hi = k if hi is None else min(hi, k)
    elif op == "ne":
        if lo is not None and lo == k:
            lo = k + 1
        if hi is not None and hi == k:
            hi = k - 1
    d[tid] = (lo, hi)


def z3bool(x):
    return _b(x)


# --------------------------------------------------------------------------------------- int
def _fit(lo, hi):
    """minimal signed width holding [lo, hi]"""
    w = 1
    if hi >= 0:
        w = max(w, hi.bit_length() + 1)
    else:
        w = max(w, (-hi - 1).bit_length() + 1)
    if lo < 0:
        w = max(w, (-lo - 1).bit_length() + 1)
    else:
        w = max(w, lo.bit_length() + 1)
    return w


def _ext(e, w, nonneg):
    d = w - e.size()
    if d == 0:
        return e
    if d < 0:
        return z3.Extract(w - 1, 0, e)
    return z3.ZeroExt(d, e) if nonneg else z3.SignExt(d, e)


class SxInt:
    __slots__ = ("e", "lo", "hi", "w", "org")

    def __init__(self, e, lo=None, hi=None, w=None):
        self.e = e
        self.org = None               # (x, byte index from LSB, length) when this is a byte of x.to_bytes()
        if w is None:
            w = e.size() if z3.is_bv(e) else 0
        self.w = w                    # bit-vector width; 0 = mathematical-integer flavour
        if w:
            if lo is None:
                lo = -(1 << (w - 1))
            if hi is None:
                hi = (1 << (w - 1)) - 1
        self.lo = lo
        self.hi = hi

    # ---- construction helpers
    @property
    def is_bv(self):
        return self.w != 0

    @staticmethod
    def bv(e, lo, hi):
        """normalise: narrow e to the minimal signed width for [lo, hi]"""
        w = _fit(lo, hi)
        if e.size() != w:
            e = _ext(e, w, lo >= 0)
        return SxInt(e, lo, hi, w)

    @staticmethod
    def unsigned(e):
        """e: z3 BV read as unsigned"""
        w = e.size()
        return SxInt(z3.ZeroExt(1, e), 0, (1 << w) - 1)

    def _co(self, o):
        """coerce other operand -> (SxInt or None)"""
        if isinstance(o, SxInt):
            if o.is_bv != self.is_bv:
                if self.is_bv:
                    return o      # caller converts self
                return o.to_int_mode()
            return o
        if isinstance(o, bool):
            o = int(o)
        if isinstance(o, int):
            if self.w:
                w = _fit(o, o)
                return SxInt(z3.BitVecVal(o, w), o, o, w)
            return SxInt(z3.IntVal(o), o, o, 0)
        return None

    def to_int_mode(self):
        if not self.is_bv:
            return self
        return SxInt(z3.BV2Int(self.e, is_signed=self.lo < 0), self.lo, self.hi)

    def _pair(self, o):
        b = self._co(o)
        if b is None:
            return None, None
        a = self
        if a.is_bv and not b.is_bv:
            a = a.to_int_mode()
        return a, b

    def _tight(self):
        """(lo, hi) narrowed by what branch decisions on this path established for the same term.
        The object itself is not modified (shared objects must keep producing the same terms)."""
        lo, hi = self.lo, self.hi
        c = core.CTX
        if c is None:
            return lo, hi
        d = c.env.get("refined")
        if not d:
            return lo, hi
        r = d.get(self.e.get_id())
        if r is None:
            return lo, hi
        rlo, rhi = r
        if rlo is not None and (lo is None or rlo > lo):
            lo = rlo
        if rhi is not None and (hi is None or rhi < hi):
            hi = rhi
        if lo is not None and hi is not None and lo > hi:
            hi = lo      # infeasible region; the solver keeps the path honest
        return lo, hi

    def at(self, w):
        d = w - self.w
        if d == 0:
            return self.e
        if d < 0:
            return z3.Extract(w - 1, 0, self.e)
        return z3.ZeroExt(d, self.e) if self.lo >= 0 else z3.SignExt(d, self.e)

    def ubits(self, n):
        """low n bits as an unsigned BV of width n (value must be known to lie in [0, 2^n))"""
        if not self.is_bv:
            return z3.Int2BV(self.e, n)
        return _ext(self.e, n, True) if self.w != n else self.e

    # ---- arithmetic
    def __add__(s, o):
        a, b = s._pair(o)
        if a is None:
            return NotImplemented
        alo, ahi = a._tight()
        blo, bhi = b._tight()
        if a.is_bv:
            lo, hi = alo + blo, ahi + bhi
            w = max(_fit(lo, hi), a.w, b.w)
            return SxInt.bv(a.at(w) + b.at(w), lo, hi)
        return SxInt(a.e + b.e, _n(alo, blo, lambda x, y: x + y), _n(ahi, bhi, lambda x, y: x + y))
    __radd__ = __add__

    def __neg__(s):
        return 0 - s

    def __pos__(s):
        return s

    def __sub__(s, o):
        a, b = s._pair(o)
        if a is None:
            return NotImplemented
        if a.is_bv:
            lo, hi = a.lo - b.hi, a.hi - b.lo
            w = _fit(lo, hi)
            return SxInt(a.at(w) - b.at(w), lo, hi)
        return SxInt(a.e - b.e, _n(a.lo, b.hi, lambda x, y: x - y), _n(a.hi, b.lo, lambda x, y: x - y))

    def __rsub__(s, o):
        b = s._co(o)
        if b is None:
            return NotImplemented
        return b.__sub__(s)

    def __mul__(s, o):
        if isinstance(o, (str, bytes, list, tuple, SxStr, SxBytes, SxChar)):
            return _repeat(o, s)
        a, b = s._pair(o)
        if a is None:
            return NotImplemented
        if a.is_bv:
            c = [a.lo * b.lo, a.lo * b.hi, a.hi * b.lo, a.hi * b.hi]
            lo, hi = min(c), max(c)
            w = _fit(lo, hi)
            return SxInt(a.at(w) * b.at(w), lo, hi)
        lo = hi = None
        if None not in (a.lo, a.hi, b.lo, b.hi):
            c = [a.lo * b.lo, a.lo * b.hi, a.hi * b.lo, a.hi * b.hi]
            lo, hi = min(c), max(c)
        return SxInt(a.e * b.e, lo, hi)

    def __rmul__(s, o):
        if isinstance(o, (str, bytes, list, tuple, SxStr, SxBytes, SxChar)):
            return _repeat(o, s)
        return s.__mul__(o)

    def __divmod__(s, o):
        if isinstance(o, SxInt):
            if o.lo is not None and o.lo == o.hi:
                o = o.lo
            else:
                raise Unsupported("division by a symbolic value")
        if not isinstance(o, int) or isinstance(o, bool):
            return NotImplemented
        if o <= 0:
            raise Unsupported("division by non-positive constant")
        tlo, thi = s._tight()
        if (tlo, thi) != (s.lo, s.hi):
            s = SxInt(s.e, tlo, thi, s.w)      # same term, narrower known interval (this path only)
        if s.is_bv:
            if s.lo >= 0:
                if s.hi < o:
                    return SxInt.bv(z3.BitVecVal(0, 1), 0, 0), s
                if s.hi < 4 * o:
                    # conditional subtraction chain, avoids the divider circuit
                    w = s.w
                    q = z3.BitVecVal(0, w)
                    r = s.e
                    k = s.hi // o
                    for j in range(k, 0, -1):
                        pass
                    cur = s.e
                    qq = z3.BitVecVal(0, w)
                    for j in range(k):
                        ge = z3.UGE(cur, z3.BitVecVal(o, w))
                        cur = z3.If(ge, cur - z3.BitVecVal(o, w), cur)
                        qq = z3.If(ge, qq + 1, qq)
                    return SxInt.bv(qq, 0, k), SxInt.bv(cur, 0, min(s.hi, o - 1))
                w = max(s.w, _fit(o, o))
                a = s.at(w)
                d = z3.BitVecVal(o, w)
                if o & (o - 1) == 0:
                    sh = o.bit_length() - 1
                    q = z3.LShR(a, sh)
                    r = a & z3.BitVecVal(o - 1, w)
                else:
                    q = z3.UDiv(a, d)
                    r = z3.URem(a, d)
                return SxInt.bv(q, s.lo // o, s.hi // o), SxInt.bv(r, 0, min(s.hi, o - 1))
            # possibly negative dividend: floor semantics
            w = max(s.w, _fit(o, o)) + 1
            a = s.at(w)
            d = z3.BitVecVal(o, w)
            r = z3.SRem(a, d)
            r = z3.If(r < 0, r + d, r)
            q = (a - r) / d     # exact signed division
            return SxInt.bv(q, s.lo // o, s.hi // o), SxInt.bv(r, 0, o - 1)
        c = C()
        q = c.newvar("q", z3.IntSort())
        r = c.newvar("r", z3.IntSort())
        c.add(s.e == o * q + r, r >= 0, r < o)
        qlo = None if s.lo is None else s.lo // o
        qhi = None if s.hi is None else s.hi // o
        if qlo is not None:
            c.add(q >= qlo)
        if qhi is not None:
            c.add(q <= qhi)
        return SxInt(q, qlo, qhi), SxInt(r, 0, o - 1)

    def __mod__(s, o):
        r = s.__divmod__(o)
        return r if r is NotImplemented else r[1]

    def __floordiv__(s, o):
        r = s.__divmod__(o)
        return r if r is NotImplemented else r[0]

    def __truediv__(s, o):
        return SxFloat.int_div(s, o)

    def __rtruediv__(s, o):
        raise Unsupported("float division by a symbolic integer")

    def __float__(s):
        raise Unsupported("float() of a symbolic integer (use the engine's float model)")

    def __rfloordiv__(s, o):
        raise Unsupported("division by a symbolic value")
    __rmod__ = __rfloordiv__
    __rdivmod__ = __rfloordiv__

    def __pow__(s, o, m=None):
        raise Unsupported("power of a symbolic integer")

    def __rpow__(s, o, m=None):
        # 2 ** k, 16 ** k with small symbolic k: enumerate
        k = concretize_small(s, 0, 600)
        return o ** k

    # ---- comparisons
    def _cmp(s, o, op):
        a, b = s._pair(o)
        if a is None:
            return NotImplemented
        alo, ahi = a._tight()
        blo, bhi = b._tight()
        if alo is not None and ahi is not None and blo is not None and bhi is not None:
            if op == "lt":
                if ahi < blo: return True
                if alo >= bhi: return False
            elif op == "le":
                if ahi <= blo: return True
                if alo > bhi: return False
            elif op == "gt":
                if alo > bhi: return True
                if ahi <= blo: return False
            elif op == "ge":
                if alo >= bhi: return True
                if ahi < blo: return False
            elif op == "eq":
                if ahi < blo or alo > bhi: return False
                if alo == ahi == blo == bhi: return True
            elif op == "ne":
                if ahi < blo or alo > bhi: return True
                if alo == ahi == blo == bhi: return False
        if a.is_bv:
            w = max(a.w, b.w)
            x, y = a.at(w), b.at(w)
        else:
            x, y = a.e, b.e
        if x.eq(y):
            return op in ("eq", "le", "ge")
        e = {"lt": lambda: x < y, "le": lambda: x <= y, "gt": lambda: x > y, "ge": lambda: x >= y,
             "eq": lambda: x == y, "ne": lambda: x != y}[op]()
        ref = None
        if b.lo is not None and b.lo == b.hi:
            ref = (a.e, op, b.lo)
        elif a.lo is not None and a.lo == a.hi:
            ref = (b.e, {"lt": "gt", "gt": "lt", "le": "ge", "ge": "le", "eq": "eq", "ne": "ne"}[op], a.lo)
        return mkbool(e, ref)

    def __lt__(s, o): return s._cmp(o, "lt")
    def __le__(s, o): return s._cmp(o, "le")
    def __gt__(s, o): return s._cmp(o, "gt")
    def __ge__(s, o): return s._cmp(o, "ge")

    def __eq__(s, o):
        if isinstance(o, SxChar):
            return False
        r = s._cmp(o, "eq")
        return False if r is NotImplemented else r

    def __ne__(s, o):
        if isinstance(o, SxChar):
            return True
        r = s._cmp(o, "ne")
        return True if r is NotImplemented else r

    def __hash__(s):
        return hash(s.__index__())

    def __bool__(s):
        return bool(s != 0)

    def __index__(s):
        if s.lo is not None and s.lo == s.hi:
            return s.lo
        v = C().concretize(s.e, "int realised at a native boundary")
        return v.as_signed_long() if z3.is_bv_value(v) else v.as_long()
    __int__ = __index__

    # ---- bit operations (BV flavour only)
    def _int_bitop(s, o, op):
        """& | ^ of a non-negative mathematical integer with a non-negative constant: split x = hi*2^m + lo with
        m = bit length of the constant (definitional), do the operation on lo as an m-bit vector"""
        c = o if isinstance(o, int) else (o.lo if isinstance(o, SxInt) and o.lo is not None and o.lo == o.hi else None)
        x = s
        if not isinstance(s, SxInt) or s.is_bv:
            return None
        if c is None and op in ("or", "xor") and isinstance(o, SxInt):
            # (x << k) | y with 0 <= y < 2^k: the operands share no set bit, so the result is their sum
            for a, b in ((s, o), (o, s)):
                if isinstance(a.org, tuple) and a.org and a.org[0] == "shl":
                    k = a.org[1]
                    blo, bhi = b._tight()
                    if blo is not None and bhi is not None and blo >= 0 and bhi < (1 << k):
                        return a + b
        if c is None or c < 0:
            raise Unsupported("bit operation between mathematical integers")
        if bool(x < 0):
            raise Unsupported("bit operation on a negative mathematical integer")
        m = max(c.bit_length(), 1)
        hi, lo = divmod(x, 1 << m)
        lob = z3.Int2BV(lo.e, m)
        cb = z3.BitVecVal(c, m)
        r = {"and": lob & cb, "or": lob | cb, "xor": lob ^ cb}[op]
        ri = SxInt(z3.BV2Int(r), 0, (1 << m) - 1)
        if op == "and":
            return ri
        return hi * (1 << m) + ri

    def _bitpair(s, o):
        b = s._co(o)
        if b is None:
            return None, None, None
        if not s.is_bv or not b.is_bv:
            raise Unsupported("bit operation on a mathematical-integer value")
        w = max(s.w, b.w)
        return s, b, w

    def __and__(s, o):
        if not s.is_bv and isinstance(o, (int, SxInt)):
            return s._int_bitop(o, "and")
        a, b, w = s._bitpair(o)
        if a is None:
            return NotImplemented
        if a.lo >= 0 and b.lo >= 0:
            lo, hi = 0, min(a.hi, b.hi)
        elif a.lo >= 0:
            lo, hi = 0, a.hi
        elif b.lo >= 0:
            lo, hi = 0, b.hi
        else:
            lo, hi = -(1 << (w - 1)), (1 << (w - 1)) - 1
        return SxInt.bv(a.at(w) & b.at(w), lo, hi)
    __rand__ = __and__

    def __or__(s, o):
        if not s.is_bv and isinstance(o, (int, SxInt)):
            return s._int_bitop(o, "or")
        a, b, w = s._bitpair(o)
        if a is None:
            return NotImplemented
        if a.lo >= 0 and b.lo >= 0:
            lo, hi = max(a.lo, b.lo), (1 << max(a.hi.bit_length(), b.hi.bit_length())) - 1
        else:
            lo, hi = -(1 << (w - 1)), (1 << (w - 1)) - 1
            if a.lo >= 0 or b.lo >= 0:
                pass
        return SxInt.bv(a.at(w) | b.at(w), lo, hi)
    __ror__ = __or__

    def __xor__(s, o):
        if not s.is_bv and isinstance(o, (int, SxInt)):
            return s._int_bitop(o, "xor")
        a, b, w = s._bitpair(o)
        if a is None:
            return NotImplemented
        if a.lo >= 0 and b.lo >= 0:
            lo, hi = 0, (1 << max(a.hi.bit_length(), b.hi.bit_length())) - 1
        else:
            lo, hi = -(1 << (w - 1)), (1 << (w - 1)) - 1
        return SxInt.bv(a.at(w) ^ b.at(w), lo, hi)
    __rxor__ = __xor__

    def __invert__(s):
        if not s.is_bv:
            return -s - 1
        return SxInt(~s.e, -s.hi - 1, -s.lo - 1)

    def __lshift__(s, n):
        if isinstance(n, SxInt):
            n = n.__index__() if n.lo == n.hi else concretize_small(n, 0, 600)
        if not isinstance(n, int):
            return NotImplemented
        if n < 0:
            raise ValueError("negative shift count")
        if not s.is_bv:
            r = s * (1 << n)
            if isinstance(r, SxInt) and n > 0:
                r.org = ("shl", n)          # remembered for (x << n) | y
            return r
        if n == 0:
            return s
        return SxInt(z3.Concat(s.e, z3.BitVecVal(0, n)), s.lo << n, s.hi << n)

    def __rlshift__(s, o):
        n = concretize_small(s, 0, 600)
        return o << n

    def __rshift__(s, n):
        if isinstance(n, SxInt):
            n = n.__index__() if n.lo == n.hi else concretize_small(n, 0, 600)
        if not isinstance(n, int):
            return NotImplemented
        if n < 0:
            raise ValueError("negative shift count")
        if not s.is_bv:
            return s // (1 << n)
        if n == 0:
            return s
        w = s.w
        lo, hi = s.lo >> n, s.hi >> n
        if n >= w:
            if s.lo >= 0:
                return SxInt.bv(z3.BitVecVal(0, 1), 0, 0)
            e = z3.If(s.e < 0, z3.BitVecVal(-1, 2), z3.BitVecVal(0, 2))
            return SxInt.bv(e, lo, hi)
        return SxInt.bv(z3.Extract(w - 1, n, s.e), lo, hi)

    def __rrshift__(s, o):
        n = concretize_small(s, 0, 600)
        return o >> n

    def bit_length(s):
        a = s if bool(s >= 0) else -s
        if a.is_bv:
            # merged term: number of thresholds 2^k that a reaches (no fork per bit)
            top = max(a._tight()[1].bit_length(), 1)
            r = 0
            for k in range(top):
                r = r + sym_ite(a >= (1 << k), 1, 0)
            return r
        if bool(a == 0):
            return 0
        k = 1
        while not bool(a < (1 << k)):
            k += 1
            if k > 8192:
                raise UnwindLimit("bit_length beyond 8192")
        return k

    def __abs__(s):
        return s if bool(s >= 0) else -s

    # ---- bytes
    def to_bytes(s, length=1, byteorder="big", *, signed=False):
        if isinstance(length, SxInt):
            length = concretize_small(length, 0, 600)
        if signed:
            raise Unsupported("signed to_bytes")
        if bool(s < 0):
            raise OverflowError("can't convert negative int to unsigned")
        if bool(s >= (1 << (8 * length))):
            raise OverflowError("int too big to convert")
        if s.is_bv:
            e = s.ubits(8 * length) if s.w <= 8 * length else z3.Extract(8 * length - 1, 0, s.e)
            e = z3.simplify(e)
            bs = [SxInt.unsigned(z3.Extract(8 * i + 7, 8 * i, e)) for i in range(length)]
        else:
            c = C()
            vs = [c.newvar("b", z3.IntSort()) for _ in range(length)]
            for v in vs:
                c.add(v >= 0, v <= 255)
            if length:
                c.add(s.e == z3.Sum([v * (256 ** i) for i, v in enumerate(vs)]))
            bs = [SxInt(v, 0, 255) for v in vs]
        bs = [_small(b) for b in bs]
        for i, b in enumerate(bs):
            if isinstance(b, SxInt):
                b.org = (s, i, length)
        if byteorder == "big":
            bs.reverse()
        elif byteorder != "little":
            raise ValueError("byteorder must be either 'little' or 'big'")
        return SxBytes(bs)

    def __repr__(s):
        return "<SxInt %s [%s,%s]>" % ("bv%d" % s.w if s.is_bv else "int", s.lo, s.hi)

    def __format__(s, spec):
        if spec in ("", "d"):
            return "<sym>"
        raise Unsupported("format spec %r on symbolic int" % spec)


def _small(b):
    """simplify a byte element: constant -> python int"""
    if isinstance(b, SxInt):
        e = z3.simplify(b.e)
        if z3.is_bv_value(e):
            return e.as_signed_long()
        if z3.is_int_value(e):
            return e.as_long()
        return SxInt(e, b.lo, b.hi)
    return b


def _n(a, b, f):
    return None if a is None or b is None else f(a, b)


def concretize_small(x, lo, hi):
    """enumerate the feasible values of a small symbolic integer by forking (exact, no loss)"""
    if isinstance(x, bool):
        return int(x)
    if isinstance(x, int):
        return x
    if x.lo is not None:
        lo = max(lo, x.lo)
    if x.hi is not None:
        hi = min(hi, x.hi)
    if bool(x < lo) or bool(x > hi):
        raise UnwindLimit("small-integer enumeration outside [%d,%d]" % (lo, hi))
    # binary search by forking keeps the number of decisions logarithmic per value
    while lo < hi:
        mid = (lo + hi) // 2
        if bool(x <= mid):
            hi = mid
        else:
            lo = mid + 1
    return lo


def _repeat(seq, n):
    k = concretize_small(n, -1, 4096)
    return seq * k


def sym_ite(cond, a, b):
    """merge two integers under a symbolic condition into one term"""
    if isinstance(cond, bool):
        return a if cond else b
    ce = cond.e if isinstance(cond, SxBool) else cond
    if isinstance(a, bool): a = int(a)
    if isinstance(b, bool): b = int(b)
    sa = a if isinstance(a, SxInt) else None
    sb = b if isinstance(b, SxInt) else None
    ref = sa or sb
    if ref is None or ref.is_bv:
        if sa is None:
            sa = SxInt(z3.BitVecVal(a, _fit(a, a)), a, a)
        if sb is None:
            sb = SxInt(z3.BitVecVal(b, _fit(b, b)), b, b)
        if not sa.is_bv or not sb.is_bv:
            sa, sb = sa.to_int_mode(), sb.to_int_mode()
            return SxInt(z3.If(ce, sa.e, sb.e), _n(sa.lo, sb.lo, min), _n(sa.hi, sb.hi, max))
        lo, hi = min(sa.lo, sb.lo), max(sa.hi, sb.hi)
        w = _fit(lo, hi)
        return SxInt(z3.If(ce, sa.at(w), sb.at(w)), lo, hi)
    if sa is None:
        sa = SxInt(z3.IntVal(a), a, a)
    if sb is None:
        sb = SxInt(z3.IntVal(b), b, b)
    sa, sb = sa.to_int_mode(), sb.to_int_mode()
    return SxInt(z3.If(ce, sa.e, sb.e), _n(sa.lo, sb.lo, min), _n(sa.hi, sb.hi, max))


# --------------------------------------------------------------------------------------- bytes
def _byte_bv(b):
    if isinstance(b, SxInt):
        return b.ubits(8)
    return z3.BitVecVal(b, 8)


def _elem_eq(a, b):
    """z3 bool / python bool for equality of two byte/char-code elements (python int or SxInt)"""
    if isinstance(a, int) and isinstance(b, int):
        return a == b
    if isinstance(a, int):
        a, b = b, a
    r = a == b
    return r if isinstance(r, bool) else r.e


class SxBytes:
    """bytes of concrete length per path; elements are python ints or SxInt in [0,255]"""
    __slots__ = ("bs",)

    def __init__(self, bs):
        self.bs = list(bs)

    def __len__(self):
        return len(self.bs)

    def __iter__(self):
        return iter(self.bs)

    def __bool__(self):
        return len(self.bs) > 0

    def concrete(self):
        if all(isinstance(b, int) for b in self.bs):
            return bytes(self.bs)
        return None

    def __getitem__(self, k):
        if isinstance(k, slice):
            k = slice(*[_cidx(v, len(self.bs)) for v in (k.start, k.stop, k.step)])
            return _mkbytes(self.bs[k])
        if isinstance(k, SxInt):
            k = _cidx(k, len(self.bs))
        return self.bs[k]

    def __add__(s, o):
        if isinstance(o, (bytes, bytearray)):
            return SxBytes(s.bs + list(o))
        if isinstance(o, SxBytes):
            return SxBytes(s.bs + o.bs)
        return NotImplemented

    def __radd__(s, o):
        if isinstance(o, (bytes, bytearray)):
            return SxBytes(list(o) + s.bs)
        return NotImplemented

    def __mul__(s, n):
        if isinstance(n, SxInt):
            n = concretize_small(n, -1, 4096)
        return SxBytes(s.bs * n)
    __rmul__ = __mul__

    def eq_expr(s, o):
        if isinstance(o, (bytes, bytearray)):
            ob = list(o)
        elif isinstance(o, SxBytes):
            ob = o.bs
        else:
            return z3.BoolVal(False)
        if len(ob) != len(s.bs):
            return z3.BoolVal(False)
        return z_and(_elem_eq(a, b) for a, b in zip(s.bs, ob))

    def __eq__(s, o):
        if not isinstance(o, (bytes, bytearray, SxBytes)):
            return False
        return mkbool(s.eq_expr(o))

    def __ne__(s, o):
        if not isinstance(o, (bytes, bytearray, SxBytes)):
            return True
        return mkbool(z3.Not(s.eq_expr(o)))

    def __hash__(s):
        return hash(s.realize())

    def realize(s):
        out = []
        for b in s.bs:
            out.append(b.__index__() if isinstance(b, SxInt) else b)
        return bytes(out)

    def hex(s, *a):
        if a:
            raise Unsupported("bytes.hex with separator")
        cs = []
        for b in s.bs:
            if isinstance(b, int):
                cs.extend("%02x" % b)
            else:
                hi, lo = divmod(b, 16)
                ch, cl = SxChar.of(HEXLOW, hi), SxChar.of(HEXLOW, lo)
                if isinstance(ch, SxChar):
                    ch.org = (b, "hi")
                if isinstance(cl, SxChar):
                    cl.org = (b, "lo")
                cs.append(ch)
                cs.append(cl)
        return _mkstr(cs)

    def bv(s):
        """the whole string as one z3 bit-vector (big endian); length must be > 0"""
        parts = [_byte_bv(b) for b in s.bs]
        return z3.Concat(*parts) if len(parts) > 1 else parts[0]

    def startswith(s, p, *a):
        if a:
            raise Unsupported("startswith with start/end positions")
        if isinstance(p, tuple):
            r = False
            for q in p:
                x = s.startswith(q)
                r = x if r is False else (r if x is False else (True if (x is True or r is True) else (r | x)))
            return r
        if len(p) > len(s):
            return False
        return s[:len(p)] == p

    def endswith(s, p, *a):
        if a:
            raise Unsupported("endswith with start/end positions")
        if isinstance(p, tuple):
            r = False
            for q in p:
                x = s.endswith(q)
                r = x if r is False else (r if x is False else (True if (x is True or r is True) else (r | x)))
            return r
        if len(p) > len(s):
            return False
        return s[len(s) - len(p):] == p if len(p) else True

    def _strip_set(s, chars):
        if chars is None:
            chars = b" \t\n\r\x0b\x0c"
        if isinstance(chars, SxBytes):
            c = chars.concrete()
            if c is None:
                raise Unsupported("strip with symbolic byte set")
            chars = c
        return set(bytes(chars))

    def _in_set(s, b, cs):
        if isinstance(b, int):
            return b in cs
        return bool(mkbool(z3.Or(*[z3bool(b == v) for v in sorted(cs)]))) if cs else False

    def lstrip(s, chars=None):
        cs = s._strip_set(chars)
        bs = list(s.bs)
        while bs and s._in_set(bs[0], cs):
            bs.pop(0)
        return _mkbytes(bs)

    def rstrip(s, chars=None):
        cs = s._strip_set(chars)
        bs = list(s.bs)
        while bs and s._in_set(bs[-1], cs):
            bs.pop()
        return _mkbytes(bs)

    def strip(s, chars=None):
        r = s.lstrip(chars)
        return r.rstrip(chars) if isinstance(r, SxBytes) else r.rstrip(chars)

    def rjust(s, width, fill=b"\x00"):
        n = max(0, width - len(s.bs))
        return SxBytes(list(fill) * n + s.bs)

    def ljust(s, width, fill=b"\x00"):
        n = max(0, width - len(s.bs))
        return SxBytes(s.bs + list(fill) * n)

    def __contains__(s, x):
        raise Unsupported("'in' on symbolic bytes")

    def decode(s, *a, **k):
        c = s.concrete()
        if c is not None:
            return c.decode(*a, **k)
        # ASCII only: elements become code points
        return _mkstr([SxChar(None, b) if isinstance(b, SxInt) else chr(b) for b in s.bs])

    def __repr__(s):
        return "<SxBytes len=%d>" % len(s.bs)


class SxByteArray(SxBytes):
    """bytearray: a mutable byte sequence whose elements may be symbolic.  Every bytearray the repository creates is
    modelled by this class from the start (a native bytearray cannot hold a symbolic element later on).  Reads behave
    like SxBytes (slices are immutable copies); writes are the bytearray mutators the repository could use."""
    __slots__ = ()

    @staticmethod
    def _vals(v):
        if isinstance(v, (bytes, bytearray)):
            return list(v)
        if isinstance(v, SxBytes):
            return list(v.bs)
        if isinstance(v, (list, tuple)):
            return list(v)
        raise TypeError("can assign only bytes, buffers, or iterables of ints in range(0, 256)")

    @staticmethod
    def _byte(v):
        if isinstance(v, SxInt):
            if not bool((v >= 0) & (v <= 255)) if not isinstance((v >= 0) & (v <= 255), bool) else not ((v >= 0) & (v <= 255)):
                raise ValueError("byte must be in range(0, 256)")
            return v
        if isinstance(v, bool) or not isinstance(v, int):
            if isinstance(v, bool):
                return int(v)
            raise TypeError("an integer is required")
        if not 0 <= v <= 255:
            raise ValueError("byte must be in range(0, 256)")
        return v

    def __setitem__(s, k, v):
        if isinstance(k, slice):
            k = slice(*[_cidx(x, len(s.bs)) for x in (k.start, k.stop, k.step)])
            s.bs[k] = s._vals(v)
            return
        if isinstance(k, SxInt):
            k = _cidx(k, len(s.bs))
        s.bs[k] = s._byte(v)

    def __delitem__(s, k):
        if isinstance(k, slice):
            k = slice(*[_cidx(x, len(s.bs)) for x in (k.start, k.stop, k.step)])
        elif isinstance(k, SxInt):
            k = _cidx(k, len(s.bs))
        del s.bs[k]

    def append(s, v):
        s.bs.append(s._byte(v))

    def extend(s, v):
        s.bs.extend(s._vals(v))

    def __iadd__(s, v):
        s.bs.extend(s._vals(v))
        return s

    def __add__(s, o):
        r = SxBytes.__add__(s, o)
        return SxByteArray(r.bs) if isinstance(r, SxBytes) else r

    def insert(s, i, v):
        s.bs.insert(_cidx(i, len(s.bs)) if isinstance(i, SxInt) else i, s._byte(v))

    def pop(s, i=-1):
        return s.bs.pop(_cidx(i, len(s.bs)) if isinstance(i, SxInt) else i)

    def clear(s):
        del s.bs[:]

    def reverse(s):
        s.bs.reverse()

    def copy(s):
        return SxByteArray(s.bs)

    def __repr__(s):
        return "<SxByteArray len=%d>" % len(s.bs)
    __hash__ = None


def _mkbytes(bs):
    bs = list(bs)
    if all(isinstance(b, int) for b in bs):
        return bytes(bs)
    return SxBytes(bs)


def _cidx(v, n):
    if isinstance(v, SxInt):
        return concretize_small(v, -n - 1, n + 1)
    return v


def bytes_from_bv(e, n):
    """z3 BV of width 8n -> SxBytes (big endian)"""
    e = z3.simplify(e)
    return SxBytes([_small(SxInt.unsigned(z3.Extract(8 * (n - 1 - i) + 7, 8 * (n - 1 - i), e))) for i in range(n)])


# --------------------------------------------------------------------------------------- str
HEXLOW = "0123456789abcdef"
HEXUP = "0123456789ABCDEF"


class SxChar:
    """one character: either alphabet[idx] (idx symbolic, always in range) or an arbitrary code
    point (alphabet None, idx = code point as SxInt)."""
    __slots__ = ("alphabet", "idx", "org")

    def __init__(self, alphabet, idx):
        self.alphabet = alphabet
        self.idx = idx
        self.org = None          # (byte SxInt, 'hi'|'lo') when this is a hex digit of bytes.hex()

    @staticmethod
    def of(alphabet, idx):
        if isinstance(idx, int):
            return alphabet[idx]
        if idx.lo is not None and idx.lo == idx.hi:
            return alphabet[idx.lo]
        return SxChar(alphabet, idx)

    def code(self):
        """code point as SxInt / int"""
        if self.alphabet is None:
            return self.idx
        idx = self.idx
        lo = max(idx.lo, 0)
        hi = min(idx.hi, len(self.alphabet) - 1)
        ords = [ord(c) for c in self.alphabet]
        if lo == hi:
            return ords[lo]
        olo, ohi = min(ords[lo:hi + 1]), max(ords[lo:hi + 1])
        w = _fit(olo, ohi)
        if idx.is_bv:
            ie = idx.e
            iw = idx.w
            r = z3.BitVecVal(ords[hi], w)
            for i in range(hi - 1, lo - 1, -1):
                r = z3.If(ie == z3.BitVecVal(i, iw), z3.BitVecVal(ords[i], w), r)
            return SxInt(r, olo, ohi, w)
        r = z3.IntVal(ords[hi])
        for i in range(hi - 1, lo - 1, -1):
            r = z3.If(idx.e == i, z3.IntVal(ords[i]), r)
        return SxInt(r, olo, ohi, 0)

    def possible(self):
        """concrete characters this may be, or None when unbounded"""
        if self.alphabet is None:
            return None
        lo = self.idx.lo if self.idx.lo is not None else 0
        hi = self.idx.hi if self.idx.hi is not None else len(self.alphabet) - 1
        return self.alphabet[max(lo, 0):hi + 1]

    def eq_expr(self, o):
        if isinstance(o, str):
            if len(o) != 1:
                return z3.BoolVal(False)
            if self.alphabet is not None:
                if len(set(self.alphabet)) == len(self.alphabet):
                    i = self.alphabet.find(o)
                    if i < 0:
                        return z3.BoolVal(False)
                    return z3bool(self.idx == i)
                idxs = [i for i, ch in enumerate(self.alphabet) if ch == o]
                return z3.Or(*[z3bool(self.idx == i) for i in idxs]) if idxs else z3.BoolVal(False)
            return z3bool(self.idx == ord(o))
        if isinstance(o, SxChar):
            if self.alphabet is not None and self.alphabet == o.alphabet and \
                    len(set(self.alphabet)) == len(self.alphabet):
                return z3bool(self.idx == o.idx)
            a, b = self.code(), o.code()
            r = a == b
            return z3bool(r)
        return z3.BoolVal(False)

    def __eq__(self, o):
        if isinstance(o, SxStr):
            return o == self
        return mkbool(self.eq_expr(o))

    def __ne__(self, o):
        r = self.__eq__(o)
        return (not r) if isinstance(r, bool) else ~r

    def __hash__(self):
        return hash(self.realize())

    def realize(self):
        if self.alphabet is not None:
            return self.alphabet[self.idx.__index__()]
        return chr(self.idx.__index__())

    def __len__(self):
        return 1

    def __iter__(self):
        return iter([self])

    def __getitem__(self, k):
        return _mkstr([self])[k]

    def __add__(s, o):
        return _mkstr([s]) + o

    def __radd__(s, o):
        return o + _mkstr([s])

    def __mul__(s, n):
        return _mkstr([s]) * n
    __rmul__ = __mul__

    def __bool__(self):
        return True

    def lower(self):
        return _mkstr([self]).lower()

    def upper(self):
        return _mkstr([self]).upper()

    def __repr__(self):
        return "<SxChar %r>" % (self.alphabet,)

    def __getattr__(self, name):
        # delegate every other str method to the 1-character string
        return getattr(_mkstr([self], force=True), name)


class SxFloat:
    """IEEE-754 binary64 value (z3 FloatingPoint term) -- the result of true division of a symbolic integer.
    Python's int/int is the correctly rounded quotient of the exact values.  Modelled exactly for
      * a divisor that is a power of two (scaling commutes with rounding away from the subnormal range), and
      * dividend and divisor both exactly representable (|x| <= 2^53): one IEEE division.
    Everything else leaves the modelled subset.  (lo, hi) are python floats enclosing the value: every operation
    used here is monotonic under round-to-nearest, so evaluating it on the end points with CPython's own floats
    gives exact bounds."""
    __slots__ = ("e", "lo", "hi")

    def __init__(self, e, lo, hi):
        self.e = e
        self.lo = lo
        self.hi = hi
        if core.CTX is not None:
            core.CTX.env["fp"] = True

    @staticmethod
    def of_int(x):
        """round-to-nearest-even conversion of a (symbolic) integer, as float(x) does"""
        if isinstance(x, SxFloat):
            return x
        if isinstance(x, bool):
            x = int(x)
        if isinstance(x, (int, float)):
            import math
            try:
                f = float(x)
            except OverflowError:
                raise Unsupported("float conversion overflow")
            if math.isnan(f) or math.isinf(f):
                raise Unsupported("non-finite float")
            return SxFloat(z3.FPVal(f, z3.Float64()), f, f)
        lo, hi = x._tight()
        if lo is None or hi is None:
            raise Unsupported("float conversion of an unbounded integer")
        if max(abs(lo), abs(hi)) >= (1 << 1023):
            raise Unsupported("float conversion of an integer that may overflow binary64")
        if x.is_bv:
            e = x.e
        else:
            e = z3.Int2BV(x.e, _fit(lo, hi))
        return SxFloat(z3.fpSignedToFP(z3.RNE(), e, z3.Float64()), float(lo), float(hi))

    @staticmethod
    def int_div(a, d):
        if isinstance(d, SxInt):
            raise Unsupported("float division by a symbolic integer")
        if isinstance(d, bool):
            d = int(d)
        if isinstance(d, float):
            if d != int(d):
                raise Unsupported("float division by a non-integral float")
            d = int(d)
        if not isinstance(d, int):
            return NotImplemented
        if d == 0:
            raise ZeroDivisionError("division by zero")
        lo, hi = a._tight()
        if lo is None or hi is None:
            raise Unsupported("float division of an unbounded integer")
        m = abs(d)
        pow2 = (m & (m - 1)) == 0
        exact = max(abs(lo), abs(hi)) <= (1 << 53) and m <= (1 << 53)
        if not (pow2 or exact):
            raise Unsupported("float division of a wide symbolic integer by a constant that is not a power of two")
        if pow2 and m.bit_length() > 900:
            raise Unsupported("float division reaching the subnormal range")
        fa = SxFloat.of_int(a)
        q = z3.fpDiv(z3.RNE(), fa.e, z3.FPVal(float(d), z3.Float64()))
        b1, b2 = lo / d, hi / d          # CPython's own correctly rounded int/int
        return SxFloat(q, min(b1, b2), max(b1, b2))

    # ---- arithmetic (round to nearest even, like CPython's float)
    def _bin(s, o, op, rev=False):
        b = SxFloat.of_int(o) if not isinstance(o, SxFloat) else o
        x, y = (b, s) if rev else (s, b)
        if op == "add":
            return SxFloat(z3.fpAdd(z3.RNE(), x.e, y.e), x.lo + y.lo, x.hi + y.hi)
        if op == "sub":
            return SxFloat(z3.fpSub(z3.RNE(), x.e, y.e), x.lo - y.hi, x.hi - y.lo)
        if op == "mul":
            c = [x.lo * y.lo, x.lo * y.hi, x.hi * y.lo, x.hi * y.hi]
            return SxFloat(z3.fpMul(z3.RNE(), x.e, y.e), min(c), max(c))
        raise Unsupported("float %s" % op)

    def __add__(s, o):
        return s._bin(o, "add")
    __radd__ = __add__

    def __sub__(s, o):
        return s._bin(o, "sub")

    def __rsub__(s, o):
        return s._bin(o, "sub", True)

    def __mul__(s, o):
        return s._bin(o, "mul")
    __rmul__ = __mul__

    def __truediv__(s, o):
        if isinstance(o, (int, float)) and not isinstance(o, bool) and o != 0 and float(o) == o:
            m = abs(int(o))
            if (m & (m - 1)) == 0 and m.bit_length() < 900:
                b1, b2 = s.lo / o, s.hi / o
                return SxFloat(z3.fpDiv(z3.RNE(), s.e, z3.FPVal(float(o), z3.Float64())), min(b1, b2), max(b1, b2))
        raise Unsupported("float division of a symbolic float")

    def __neg__(s):
        return SxFloat(z3.fpNeg(s.e), -s.hi, -s.lo)

    def _cmp(s, o, f):
        b = SxFloat.of_int(o) if not isinstance(o, SxFloat) else o
        return mkbool(f(s.e, b.e))

    def __lt__(s, o):
        return s._cmp(o, z3.fpLT)

    def __le__(s, o):
        return s._cmp(o, z3.fpLEQ)

    def __gt__(s, o):
        return s._cmp(o, z3.fpGT)

    def __ge__(s, o):
        return s._cmp(o, z3.fpGEQ)

    def __eq__(s, o):
        if not isinstance(o, (int, float, SxInt, SxFloat)):
            return False
        return s._cmp(o, z3.fpEQ)

    def __ne__(s, o):
        r = s.__eq__(o)
        return (not r) if isinstance(r, bool) else ~r
    __hash__ = None

    def trunc(s, mode="RTZ"):
        """int(x): truncation toward zero; floor / ceil / round-half-even with the other modes"""
        import math
        f = {"RTZ": math.trunc, "RTN": math.floor, "RTP": math.ceil, "RNE": round}[mode]
        lo, hi = f(s.lo), f(s.hi)
        w = _fit(lo, hi) + 1
        e = z3.fpToSBV(getattr(z3, mode)(), s.e, z3.BitVecSort(w))
        return SxInt.bv(e, lo, hi)

    def __int__(s):
        raise Unsupported("int() of a symbolic float outside the engine's call dispatch")

    def __trunc__(s):
        return s.trunc()

    def __floor__(s):
        return s.trunc("RTN")

    def __ceil__(s):
        return s.trunc("RTP")

    def __round__(s, nd=None):
        if nd is not None:
            raise Unsupported("round(float, ndigits)")
        return s.trunc("RNE")

    def __bool__(s):
        return bool(~s._cmp(0, z3.fpEQ))

    def __float__(s):
        raise Unsupported("realisation of a symbolic float")

    def __repr__(s):
        return "<SxFloat [%s,%s]>" % (s.lo, s.hi)


class Numeral:
    """the numeral of a symbolic non-negative integer in base 2/10/16, length not yet decided"""
    __slots__ = ("x", "base", "_d", "neg", "up")

    def __init__(self, x, base, up=False):
        self.x = x
        self.base = base
        self._d = None
        self.up = up

    def digits(self):
        if self._d is None:
            d = 1
            while not bool(self.x < self.base ** d):
                d += 1
                if d > 700:
                    raise UnwindLimit("numeral longer than 700 digits")
            self._d = d
        return self._d

    def chars(self):
        """resolve into digit characters (most significant first)"""
        d = self.digits()
        x = self.x
        alpha = ("0123456789ABCDEF" if self.up else "0123456789abcdef")[:self.base]
        out = []
        if x.is_bv and self.base in (2, 16):
            step = 1 if self.base == 2 else 4
            for i in range(d):
                out.append(SxChar.of(alpha, (x >> (step * (d - 1 - i))) & (self.base - 1)))
            return out
        cur = x
        rev = []
        for i in range(d):
            cur, r = divmod(cur, self.base)
            rev.append(SxChar.of(alpha, r))
        return list(reversed(rev))


class WordItem:
    """an entry of a (large) concrete word table selected by a symbolic index; opaque text segment"""
    __slots__ = ("idx", "table")

    def __init__(self, idx, table=None):
        self.idx = idx
        self.table = table


class SxStr:
    """str; items are 1-char python strings, SxChar, (unresolved) Numeral segments or WordItems"""
    __slots__ = ("items",)

    def __init__(self, items):
        self.items = list(items)

    # ---- resolution of lazy numerals
    def _resolve(self):
        if any(isinstance(i, WordItem) for i in self.items):
            raise Unsupported("character-level operation on text containing symbolic word-list entries")
        if any(isinstance(i, Numeral) for i in self.items):
            out = []
            for i in self.items:
                if isinstance(i, Numeral):
                    out.extend(i.chars())
                else:
                    out.append(i)
            self.items = out
        return self.items

    def has_numeral(self):
        return any(isinstance(i, (Numeral, WordItem)) for i in self.items)

    def __len__(self):
        return len(self._resolve())

    def __iter__(self):
        return iter(list(self._resolve()))

    def __bool__(self):
        if self.has_numeral():
            return True
        return len(self.items) > 0

    def concrete(self):
        if all(isinstance(i, str) for i in self.items):
            return "".join(self.items)
        return None

    def __getitem__(self, k):
        if isinstance(k, slice):
            # numeral[2:] of "0x.."/"0b.." prefixes and tok[:-1] with a trailing marker are handled
            # without resolving the numeral
            if k.step is None and self.has_numeral():
                its = self.items
                if isinstance(k.start, int) and k.start >= 0 and k.stop is None and \
                        all(isinstance(i, str) for i in its[:k.start]) and len(its) >= k.start:
                    return _mkstr(its[k.start:])
                if k.start is None and isinstance(k.stop, int) and k.stop < 0 and \
                        all(not isinstance(i, Numeral) for i in its[k.stop:]) and len(its) >= -k.stop:
                    return _mkstr(its[:k.stop])
            n = len(self)
            k = slice(*[_cidx(v, n) for v in (k.start, k.stop, k.step)])
            return _mkstr(self.items[k])
        if isinstance(k, SxInt):
            k = _cidx(k, len(self))
        if k == -1 and self.items and not isinstance(self.items[-1], (Numeral, WordItem)):
            return self.items[-1]
        if k == -1 and self.items and isinstance(self.items[-1], Numeral):
            num = self.items[-1]       # last digit of a numeral without deciding its length
            return SxChar.of("0123456789abcdef"[:num.base], num.x % num.base)
        if k == 0 and self.items and not isinstance(self.items[0], Numeral):
            return self.items[0]
        return self._resolve()[k]

    def __add__(s, o):
        if isinstance(o, str):
            return _mkstr(s.items + list(o))
        if isinstance(o, SxStr):
            return _mkstr(s.items + o.items)
        if isinstance(o, SxChar):
            return _mkstr(s.items + [o])
        return NotImplemented

    def __radd__(s, o):
        if isinstance(o, str):
            return _mkstr(list(o) + s.items)
        if isinstance(o, SxChar):
            return _mkstr([o] + s.items)
        return NotImplemented

    def __mul__(s, n):
        if isinstance(n, SxInt):
            n = concretize_small(n, -1, 4096)
        return _mkstr(s._resolve() * n)
    __rmul__ = __mul__

    def eq_expr(s, o):
        if isinstance(o, SxChar):
            o = SxStr([o])
        if isinstance(o, str):
            oi = list(o)
        elif isinstance(o, SxStr):
            # two unresolved numerals of the same base compare by value
            if len(s.items) == len(o.items) and s.has_numeral() and o.has_numeral() and \
                    all(type(a) is type(b) for a, b in zip(s.items, o.items)):
                cs = []
                ok = True
                for a, b in zip(s.items, o.items):
                    if isinstance(a, WordItem):
                        cs.append(z3bool(a.idx == b.idx))
                    elif isinstance(a, Numeral):
                        if a.base != b.base:
                            ok = False
                            break
                        cs.append(z3bool(a.x == b.x))
                    else:
                        cs.append(_char_eq(a, b))
                if ok:
                    return z_and(cs)
            oi = o._resolve()
        else:
            return z3.BoolVal(False)
        si = s._resolve()
        if len(si) != len(oi):
            return z3.BoolVal(False)
        return z_and(_char_eq(a, b) for a, b in zip(si, oi))

    def __eq__(s, o):
        if not isinstance(o, (str, SxStr, SxChar)):
            return False
        return mkbool(s.eq_expr(o))

    def __ne__(s, o):
        if not isinstance(o, (str, SxStr, SxChar)):
            return True
        return mkbool(z3.Not(s.eq_expr(o)))

    def __hash__(s):
        return hash(s.realize())

    def realize(s):
        return "".join(i if isinstance(i, str) else i.realize() for i in s._resolve())

    def __contains__(s, x):
        raise Unsupported("'in' on symbolic str")

    # ---- str methods used by the repository
    def _map(s, f_alpha):
        out = []
        for i in s._resolve():
            if isinstance(i, str):
                out.append(f_alpha(i))
            elif i.alphabet is not None:
                out.append(SxChar.of(f_alpha(i.alphabet), i.idx) if len(f_alpha(i.alphabet)) == len(i.alphabet)
                           else _unsup("case mapping changes length"))
            else:
                r = _case_code(i, f_alpha)
                out.extend(r if isinstance(r, list) else [r])
        return _mkstr(out)

    def lower(s):
        return s._map(str.lower)

    def upper(s):
        return s._map(str.upper)

    def _pad(s, width, fill, how):
        if isinstance(width, SxInt):
            width = concretize_small(width, 0, 4096)
        if isinstance(fill, (SxStr, SxChar)):
            fill = str_of(fill)._resolve()
            if len(fill) != 1:
                raise TypeError("The fill character must be exactly one character long")
            fill = fill[0]
        elif not isinstance(fill, str) or len(fill) != 1:
            raise TypeError("The fill character must be exactly one character long")
        si = list(s._resolve())
        pad = max(0, width - len(si))
        if how == "r":
            return _mkstr([fill] * pad + si)
        if how == "l":
            return _mkstr(si + [fill] * pad)
        left = pad // 2 + (pad & width & 1)          # CPython's str.center rounding
        return _mkstr([fill] * left + si + [fill] * (pad - left))

    def rjust(s, width, fill=" "):
        return s._pad(width, fill, "r")

    def ljust(s, width, fill=" "):
        return s._pad(width, fill, "l")

    def center(s, width, fill=" "):
        return s._pad(width, fill, "c")

    def zfill(s, width):
        if isinstance(width, SxInt):
            width = concretize_small(width, 0, 4096)
        its = s.items
        if its and isinstance(its[0], Numeral) and not any(isinstance(i, Numeral) for i in its[1:]):
            num = its[0]
            rest = its[1:]
            w = width - len(rest)
            if w >= 1 and bool(num.x < num.base ** w):
                # fixed-width numeral: every digit position is a character
                n2 = Numeral(num.x, num.base)
                n2._d = w
                return _mkstr(n2.chars() + rest)
        si = s._resolve()
        if len(si) >= width:
            return s
        first = si[0] if si else None
        if first is not None and not isinstance(first, str):
            poss = first.possible()
            if poss is None or "+" in poss or "-" in poss:
                raise Unsupported("zfill on text with symbolic sign")
        if first in ("+", "-"):
            return _mkstr([first] + ["0"] * (width - len(si)) + si[1:])
        return _mkstr(["0"] * (width - len(si)) + si)

    _WS = " \t\n\r\x0b\x0c\x1c\x1d\x1e\x1f\x85\xa0\u1680\u2000\u2001\u2002\u2003\u2004\u2005\u2006\u2007\u2008\u2009\u200a\u2028\u2029\u202f\u205f\u3000"

    def _split_ws(s):
        """str.split() without arguments: runs of whitespace separate, no empty strings"""
        parts, cur = [], []
        for i in s.items:
            if isinstance(i, (Numeral, WordItem)):
                cur.append(i)
                continue
            if isinstance(i, str):
                isws = i.isspace()
            else:
                poss = i.possible()
                if poss is not None and not any(ch.isspace() for ch in poss):
                    isws = False
                elif poss is None and i.idx.hi is not None and i.idx.hi < 9:
                    isws = False
                else:
                    isws = bool(_char_in(i, SxStr._WS))
            if isws:
                if cur:
                    parts.append(cur)
                    cur = []
            else:
                cur.append(i)
        if cur:
            parts.append(cur)
        return [_mkstr(p) for p in parts]

    def split(s, sep=None, maxsplit=-1):
        if sep is None and maxsplit == -1:
            return s._split_ws()
        if sep is None or maxsplit != -1 or not isinstance(sep, str) or len(sep) != 1:
            raise Unsupported("split variant")
        parts = [[]]
        for i in s.items:
            if isinstance(i, Numeral):
                parts[-1].append(i)
                continue
            r = (i == sep)
            if bool(r):
                parts.append([])
            else:
                parts[-1].append(i)
        return [_mkstr(p) for p in parts]

    def strip(s, chars=None):
        its = list(s._resolve())
        def ws(i):
            if chars is not None:
                return _char_in(i, chars)
            return _char_in(i, " \t\n\r\x0b\x0c\x1c\x1d\x1e\x1f\x85")
        while its and bool(ws(its[0])):
            its.pop(0)
        while its and bool(ws(its[-1])):
            its.pop()
        return _mkstr(its)

    def lstrip(s, chars=None):
        its = list(s._resolve())
        cs = chars if chars is not None else " \t\n\r\x0b\x0c\x1c\x1d\x1e\x1f\x85"
        if isinstance(cs, SxStr):
            raise Unsupported("strip with symbolic character set")
        while its and bool(_char_in(its[0], cs)):
            its.pop(0)
        return _mkstr(its)

    def rstrip(s, chars=None):
        its = list(s._resolve())
        cs = chars if chars is not None else " \t\n\r\x0b\x0c\x1c\x1d\x1e\x1f\x85"
        if isinstance(cs, SxStr):
            raise Unsupported("strip with symbolic character set")
        while its and bool(_char_in(its[-1], cs)):
            its.pop()
        return _mkstr(its)

    def removeprefix(s, p):
        if len(s) >= len(p) and bool(s[:len(p)] == p):
            return s[len(p):]
        return s

    def removesuffix(s, p):
        if len(p) and len(s) >= len(p) and bool(s[len(s) - len(p):] == p):
            return s[:len(s) - len(p)]
        return s

    def replace(s, old, new, count=-1):
        if not isinstance(old, str) or len(old) != 1 or not isinstance(new, str) or count != -1:
            raise Unsupported("replace variant")
        out = []
        for i in s._resolve():
            if bool(i == old):
                out.extend(new)
            else:
                out.append(i)
        return _mkstr(out)

    def count(s, sub):
        if not isinstance(sub, str) or len(sub) != 1:
            raise Unsupported("count variant")
        n = 0
        for i in s._resolve():
            if bool(i == sub):
                n += 1
        return n

    def translate(s, table):
        out = []
        for i in s._resolve():
            if isinstance(i, str):
                out.extend(i.translate(table))
                continue
            poss = i.possible()
            if poss is not None:
                if not any(ord(ch) in table for ch in poss):
                    out.append(i)
                    continue
                imgs = [ch.translate(table) for ch in i.alphabet]
                if all(len(x) == 1 for x in imgs):
                    out.append(SxChar.of("".join(imgs), i.idx) if len(set(imgs)) == len(imgs) else SxChar(None, _img_code(i, imgs)))
                    continue
                raise Unsupported("translate that deletes or expands characters of a symbolic character")
            code = i.idx
            r = code
            for kk, vv in table.items():
                if vv is None or (isinstance(vv, str) and len(vv) != 1):
                    if bool(code == kk):
                        raise Unsupported("translate that deletes or expands a symbolic character")
                    continue
                tv = vv if isinstance(vv, int) else ord(vv)
                r = sym_ite(code == kk, tv, r)
            out.append(SxChar(None, r))
        return _mkstr(out)

    def rfind(s, sub):
        if not isinstance(sub, str) or len(sub) != 1:
            raise Unsupported("rfind variant")
        its = s._resolve()
        for i in range(len(its) - 1, -1, -1):
            if bool(its[i] == sub):
                return i
        return -1

    def find(s, sub):
        if not isinstance(sub, str) or len(sub) != 1:
            raise Unsupported("find variant")
        its = s._resolve()
        for i in range(len(its)):
            if bool(its[i] == sub):
                return i
        return -1

    def startswith(s, p, *a):
        if a:
            raise Unsupported("startswith with start/end positions")
        if isinstance(p, tuple):
            r = False
            for q in p:
                x = s.startswith(q)
                r = x if r is False else (r if x is False else (True if (x is True or r is True) else (r | x)))
            return r
        if len(p) > len(s):
            return False
        return s[:len(p)] == p

    def endswith(s, p, *a):
        if a:
            raise Unsupported("endswith with start/end positions")
        if isinstance(p, tuple):
            r = False
            for q in p:
                x = s.endswith(q)
                r = x if r is False else (r if x is False else (True if (x is True or r is True) else (r | x)))
            return r
        if len(p) > len(s):
            return False
        return s[len(s) - len(p):] == p if len(p) else True

    def join(s, parts):
        out = []
        first = True
        for p in parts:
            if not first:
                out.extend(s.items)
            first = False
            out.extend(_items(p))
        return _mkstr(out)

    def encode(s, enc="utf-8", errors="strict"):
        out = []
        for i in s._resolve():
            if isinstance(i, str):
                out.extend(i.encode(enc))
            else:
                poss = i.possible()
                if poss is not None and all(ord(ch) < 128 for ch in poss):
                    out.append(i.code())
                elif poss is None and bool(i.idx < 128):
                    out.append(i.idx)
                else:
                    raise Unsupported("encode of non-ASCII symbolic character")
        return _mkbytes(out)

    def format(s, *a, **k):
        raise Unsupported("format on symbolic template")

    def isdigit(s):
        its = s._resolve()
        if not its:
            return False
        r = True
        for i in its:
            r = r and bool(_char_in(i, "0123456789"))
        return r

    def __repr__(s):
        return "<SxStr %s>" % "".join(i if isinstance(i, str) else "?" for i in s.items)

    def __format__(s, spec):
        return "<sym>"


def _img_code(ch, imgs):
    r = ord(imgs[-1])
    for j in range(len(imgs) - 2, -1, -1):
        r = sym_ite(ch.idx == j, ord(imgs[j]), r)
    return r


def _unsup(msg):
    raise Unsupported(msg)


_CASE_TABLES = {}


def _case_tables(f):
    """exact tables of CPython's own str.lower / str.upper over all code points, computed once per process:
    (runs, multi) -- runs = [(first, last, step, delta)] for one-to-one mappings that change the character,
    multi = {code point: replacement string} for the length-changing ones"""
    t = _CASE_TABLES.get(f)
    if t is not None:
        return t
    single, multi = {}, {}
    for cp in range(128, 0x110000):
        if 0xD800 <= cp <= 0xDFFF:
            continue
        r = f(chr(cp))
        if r != chr(cp):
            if len(r) == 1:
                single[cp] = ord(r)
            else:
                multi[cp] = r
    keys = sorted(single)
    runs = []
    i = 0
    while i < len(keys):
        a = keys[i]
        d = single[a] - a
        j = i
        step = None
        while j + 1 < len(keys) and single[keys[j + 1]] - keys[j + 1] == d and \
                ((step is None and keys[j + 1] - keys[j] in (1, 2)) or step == keys[j + 1] - keys[j]):
            step = keys[j + 1] - keys[j]
            j += 1
        runs.append((a, keys[j], step or 1, d))
        i = j + 1
    t = _CASE_TABLES[f] = (runs, multi)
    return t


def _case_code(ch, f):
    """str.lower / str.upper of one symbolic code point.  ASCII: letters are remapped.  Beyond ASCII the mapping is
    CPython's own table (exact, incl. U+212A KELVIN SIGN -> 'k', U+0131 -> 'I', U+017F -> 'S'); code points whose
    mapping changes the length are enumerated by forking; GREEK CAPITAL SIGMA (context-dependent final form) is
    over-approximated and marks the path incomplete."""
    c = ch.idx
    if not bool(c >= 128):
        if f is str.lower:
            isup = (c >= 65) & (c <= 90) if not isinstance(c >= 65, bool) and not isinstance(c <= 90, bool) \
                else ((c >= 65) and (c <= 90))
            if isinstance(isup, bool):
                return SxChar(None, c + 32 if isup else c)
            return SxChar(None, sym_ite(isup, c + 32, c))
        islow = (c >= 97) & (c <= 122) if not isinstance(c >= 97, bool) and not isinstance(c <= 122, bool) \
            else ((c >= 97) and (c <= 122))
        if isinstance(islow, bool):
            return SxChar(None, c - 32 if islow else c)
        return SxChar(None, sym_ite(islow, c - 32, c))
    runs, multi = _case_tables(f)
    if multi:
        ks = sorted(multi)
        anym = mkbool(z3.Or(*[z3bool(c == k) for k in ks]))
        if bool(anym):
            k = concretize_small(c, ks[0], ks[-1])
            return list(multi[k])
    if f is str.lower and bool(c == 0x3A3):
        if core.CTX is not None:
            core.CTX.incomplete.append("final-sigma rule of str.lower over-approximated")
            v = core.CTX.newvar("sigma", z3.IntSort())
            core.CTX.add(z3.Or(v == 0x3C3, v == 0x3C2))
            return SxChar(None, SxInt(v, 0x3C2, 0x3C3))
    r = c
    for (a, b, step, d) in reversed(runs):
        cond = (c >= a) & (c <= b)
        if step == 2:
            cond = cond & (((c - a) & 1) == 0 if c.is_bv else ((c - a) % 2) == 0)
        r = sym_ite(cond, c + d, r)
    return SxChar(None, r)


def _items(p):
    if isinstance(p, WordItem):
        return [p]
    if isinstance(p, str):
        return list(p)
    if isinstance(p, SxStr):
        return p.items
    if isinstance(p, SxChar):
        return [p]
    raise Unsupported("joining %r" % type(p))


def _char_eq(a, b):
    if isinstance(a, str) and isinstance(b, str):
        return z3.BoolVal(a == b)
    if isinstance(a, str):
        a, b = b, a
    return a.eq_expr(b)


def _char_in(ch, alphabet):
    """SxBool/bool: ch in alphabet"""
    if isinstance(ch, str):
        return ch in alphabet
    poss = ch.possible()
    if poss is not None:
        if all(p in alphabet for p in poss):
            return True
        if not any(p in alphabet for p in poss):
            return False
    return mkbool(z3.Or(*[ch.eq_expr(a) for a in alphabet])) if alphabet else False


def _mkstr(items, force=False):
    items = list(items)
    if not force and all(isinstance(i, str) for i in items):
        return "".join(items)
    return SxStr(items)


def str_of(x):
    if isinstance(x, (str, SxStr)):
        return x
    if isinstance(x, SxChar):
        return SxStr([x])
    raise Unsupported("not text: %r" % type(x))


def has_sym(x):
    if is_sym(x):
        return True
    if isinstance(x, (tuple, list)):
        return any(has_sym(v) for v in x)
    return False


def eq_term(a, b):
    """z3 Bool / python bool: a == b, recursively through tuples/lists/dicts, without forking"""
    if isinstance(a, (list, tuple)) and isinstance(b, (list, tuple)):
        if len(a) != len(b):
            return False
        cs = [eq_term(x, y) for x, y in zip(a, b)]
        if any(c is False for c in cs):
            return False
        cs = [z3bool(c) for c in cs if not isinstance(c, bool)]
        return z3.And(*cs) if cs else True
    if isinstance(a, dict) and isinstance(b, dict):
        if any(has_sym(k) for k in list(a) + list(b)):
            raise Unsupported("dict with symbolic keys in result comparison")
        if set(a.keys()) != set(b.keys()):
            return False
        return eq_term([a[k] for k in a], [b[k] for k in a])
    if isinstance(a, (SxBytes, SxStr, SxChar)) or isinstance(b, (SxBytes, SxStr, SxChar)):
        if isinstance(a, (bytes, str)):
            a, b = b, a
        if isinstance(a, SxChar):
            a = SxStr([a])
        if isinstance(a, SxBytes) and not isinstance(b, (bytes, bytearray, SxBytes)):
            return False
        if isinstance(a, SxStr) and not isinstance(b, (str, SxStr, SxChar)):
            return False
        e = a.eq_expr(b)
        return True if z3.is_true(e) else False if z3.is_false(e) else e
    if isinstance(a, (SxInt, SxBool)) or isinstance(b, (SxInt, SxBool)):
        if isinstance(a, (bool, SxBool)) or isinstance(b, (bool, SxBool)):
            if isinstance(a, (bool, SxBool)) and isinstance(b, (bool, SxBool)):
                e = z3.simplify(z3bool(a) == z3bool(b))
                return True if z3.is_true(e) else False if z3.is_false(e) else e
            return False
        if not isinstance(a, (int, SxInt)) or not isinstance(b, (int, SxInt)):
            return False
        r = (a == b)
        return r if isinstance(r, bool) else r.e
    if type(a) is not type(b) and not (isinstance(a, (int, float)) and isinstance(b, (int, float))):
        if hasattr(a, "__eq__") and type(a).__eq__ is not object.__eq__ and not isinstance(a, (str, bytes, int, float)):
            r = a == b
            return r.e if isinstance(r, SxBool) else bool(r)
        return False
    r = (a == b)
    return r.e if isinstance(r, SxBool) else bool(r)
