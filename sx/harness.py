"""sx.harness -- the glue between a property harness and the engine.

A *case* is a python function `fn(E, R, **params)`:
   E : environment.  SymEnv during exploration (inputs are solver variables, E.check() is a
       solver query over the current path) or ConcEnv during native replay (inputs come from the
       witness, E.check() is an ordinary assertion).
   R : the repository's modules -- instrumented (exploration) or native (replay).
The same function therefore is both the symbolic harness and the replay test of its witnesses.
"""
import importlib
import json
import os
import sys
import time
import traceback

import z3

from . import core
from .core import Unsupported, Infeasible, EngineAbort
from .values import (SxInt, SxBool, SxBytes, SxStr, SxChar, is_sym, mkbool, z3bool, _mkbytes, _mkstr,
                     sym_ite)

SX_DIR = os.path.dirname(os.path.abspath(__file__))


class Raised:
    """outcome wrapper: the call raised `exc`"""

    def __init__(self, exc):
        self.exc = exc

    def __repr__(self):
        return "Raised(%s: %s)" % (type(self.exc).__name__, self.exc)


def _engine_fault(e):
    """a TypeError/AttributeError/... raised from inside the engine's own files means the code
    left the modelled subset; it must not be mistaken for an exception of the code under test"""
    if getattr(e, "_sx_model", False):
        return False
    if not isinstance(e, (TypeError, AttributeError, NotImplementedError, AssertionError, NameError, KeyError,
                          RecursionError)):
        return False
    tb = e.__traceback__
    last = None
    while tb is not None:
        last = tb
        tb = tb.tb_next
    if last is None:
        return False
    fn = last.tb_frame.f_code.co_filename
    if fn.startswith(SX_DIR):
        return True
    if isinstance(e, (TypeError, AttributeError)):
        # an operation the engine's value classes do not model, attempted by repository code
        msg = str(e)
        if "'Sx" in msg or "Sx" in msg and isinstance(e, TypeError) or "_B64Bytes" in msg or "Numeral" in msg or "SxText" in msg:
            return True
    return False


class _EnvBase:
    def run(self, fn, *a, **k):
        """call repository code; returns its value or Raised(exc)"""
        try:
            return fn(*a, **k)
        except Exception as e:           # EngineAbort is BaseException: passes through
            if self.symbolic and _engine_fault(e):
                raise Unsupported("engine fault: %s: %s\n%s" % (
                    type(e).__name__, e, "".join(traceback.format_tb(e.__traceback__)[-4:])))
            return Raised(e)

    def raises(self, fn, *a, **k):
        r = self.run(fn, *a, **k)
        return isinstance(r, Raised)

    def call(self, fn, *a, **k):
        """like run(), but the call goes through the engine's call dispatch, so installed summaries /
        environment models apply to `fn` itself (a plain call from harness code bypasses them)"""
        if self.symbolic:
            from .instrument import __sx_call__
            return self.run(__sx_call__, fn, *a, **k)
        return self.run(fn, *a, **k)


class SymEnv(_EnvBase):
    symbolic = True

    def __init__(self, ctx, params=None, pins=None):
        self.ctx = ctx
        self.params = params or {}
        self.labels = {}
        self.pins = pins

    def _pin(self, name, kind, vs):
        """translator validation: constrain an input to the concrete value of a repository vector"""
        if not self.pins or name not in self.pins:
            return
        val = self.pins[name]
        if kind == "int":
            self.ctx.add(vs == val)
        elif kind == "bytes":
            b = bytes.fromhex(val)
            for v, x in zip(vs, b):
                self.ctx.add(v == x)
        elif kind == "str":
            for v, ch in zip(vs, val):
                self.ctx.add(v == ord(ch))

    # ---- inputs
    def bv(self, name, bits, lo=None, hi=None):
        """unsigned integer of `bits` bits (BV flavour)"""
        v = z3.BitVec(name, bits)
        self.ctx.inputs.append((name, "int", (v, False)))
        self._pin(name, "int", v)
        x = SxInt.unsigned(v)
        if lo is not None:
            self.assume(x >= lo)
            x.lo = max(x.lo, lo)
        if hi is not None:
            self.assume(x <= hi)
            x.hi = min(x.hi, hi)
        if lo is not None or hi is not None:
            x = SxInt.bv(x.e, x.lo, x.hi)
        return x

    def sbv(self, name, bits=64):
        """signed integer of `bits` bits (BV flavour): every value in [-2^(bits-1), 2^(bits-1))"""
        v = z3.BitVec(name, bits)
        self.ctx.inputs.append((name, "int", (v, True)))
        self._pin(name, "int", v)
        return SxInt(v, -(1 << (bits - 1)), (1 << (bits - 1)) - 1, bits)

    def int(self, name, lo=None, hi=None):
        """mathematical integer (Int flavour), optionally bounded"""
        v = z3.Int(name)
        self.ctx.inputs.append((name, "int", (v, True)))
        self._pin(name, "int", v)
        if lo is not None:
            self.ctx.add(v >= lo)
        if hi is not None:
            self.ctx.add(v <= hi)
        return SxInt(v, lo, hi)

    def bytes(self, name, n, mode="bv"):
        out = []
        vs = []
        for i in range(n):
            if mode == "bv":
                v = z3.BitVec("%s_%d" % (name, i), 8)
                out.append(SxInt.unsigned(v))
            else:
                v = z3.Int("%s_%d" % (name, i))
                self.ctx.add(v >= 0, v <= 255)
                out.append(SxInt(v, 0, 255))
            vs.append(v)
        self.ctx.inputs.append((name, "bytes", vs))
        self._pin(name, "bytes", vs)
        return SxBytes(out) if n else b""

    def bytes_of(self, name, bits):
        """bytes from one wide bit-vector variable (big endian)"""
        from .values import bytes_from_bv
        v = z3.BitVec(name, bits)
        b = bytes_from_bv(v, bits // 8)
        self.ctx.inputs.append((name, "bytes", [x.ubits(8) if isinstance(x, SxInt) else z3.BitVecVal(x, 8) for x in b.bs]))
        return b

    def chars(self, name, n, alphabet=None, mode="int", lo=0, hi=0x10ffff):
        """text of n characters; alphabet=None -> arbitrary code points lo..hi.
        mode 'bv': indexes / code points are bit-vectors (needed when the code does bit operations on them)"""
        items = []
        vs = []
        for i in range(n):
            nm = "%s_%d" % (name, i)
            if alphabet is None:
                if mode == "bv":
                    w = max(hi.bit_length(), 1)
                    v = z3.BitVec(nm, w)
                    self.ctx.add(z3.UGE(v, lo), z3.ULE(v, hi))
                    items.append(SxChar(None, SxInt.bv(z3.ZeroExt(1, v), lo, hi)))
                    vs.append(z3.BV2Int(v))
                else:
                    v = z3.Int(nm)
                    self.ctx.add(v >= lo, v <= hi)
                    items.append(SxChar(None, SxInt(v, lo, hi)))
                    vs.append(v)
            else:
                if mode == "bv":
                    w = max((len(alphabet) - 1).bit_length(), 1)
                    v = z3.BitVec(nm, w)
                    if len(alphabet) != (1 << w):
                        self.ctx.add(z3.ULT(v, len(alphabet)))
                    ch = SxChar(alphabet, SxInt.bv(z3.ZeroExt(1, v), 0, len(alphabet) - 1))
                else:
                    v = z3.Int(nm)
                    self.ctx.add(v >= 0, v < len(alphabet))
                    ch = SxChar(alphabet, SxInt(v, 0, len(alphabet) - 1))
                items.append(ch)
                cd = ch.code()
                vs.append((cd.to_int_mode().e if isinstance(cd, SxInt) else z3.IntVal(cd)))
        self.ctx.inputs.append((name, "str", vs))
        self._pin(name, "str", vs)
        return SxStr(items) if n else ""

    def const(self, name, value):
        self.ctx.inputs.append((name, "const", value))
        return value

    def choose(self, name, lo, hi):
        """an integer in [lo, hi] enumerated by forking: concrete on every path"""
        from .values import concretize_small
        v = z3.Int(name)
        self.ctx.inputs.append((name, "int", (v, True)))
        self._pin(name, "int", v)
        self.ctx.add(v >= lo, v <= hi)
        return concretize_small(SxInt(v, lo, hi), lo, hi)

    def reader(self, b):
        from .instrument import SxReader
        return SxReader(b)

    # ---- assertions
    def assume(self, cond):
        if isinstance(cond, SxBool):
            cond = cond.e
        self.ctx.assume(cond)

    def check(self, cond, label, extra=None):
        if isinstance(cond, SxBool):
            cond = cond.e
        elif isinstance(cond, SxInt):
            cond = z3bool(cond != 0) if not isinstance(cond != 0, bool) else (cond != 0)
        elif not isinstance(cond, (bool, z3.BoolRef)):
            cond = bool(cond)
        self.labels[label] = self.labels.get(label, 0) + 1
        return self.ctx.prove(cond, label, extra)

    def fail(self, label, extra=None):
        return self.check(False, label, extra)

    def eq(self, a, b):
        """structural equality of results as one solver term (no forking)"""
        return _eq_term(a, b)

    def check_eq(self, a, b, label):
        return self.check(_eq_term(a, b), label)

    def note(self, k, v):
        self.ctx.env.setdefault("notes", {})[k] = v

    def ite(self, c, a, b):
        return sym_ite(c, a, b)

    def preempt(self, op_a, op_b, max_points=4000):
        """run operation A with operation B scheduled at ONE of A's yield points; which one is the solver variable
        'preempt_at' (0: B runs after A).  Returns (result A, result B), each a value or Raised."""
        from . import instrument
        import z3 as _z3
        v = _z3.Int("preempt_at")            # occurs in no constraint but the scheduler's own (k == n) choices
        self.ctx.inputs.append(("preempt_at", "int", (v, True)))
        k = SxInt(v, 0, max_points)
        ra, rb, n = instrument.run_preempted(k, lambda: self.run(op_a), lambda: self.run(op_b))
        self.note("yield_points", n)
        return ra, rb


class CheckFailed(Exception):
    pass


import io as _io


class CountingBytesIO(_io.BytesIO):
    """native stream that records reads which came back short"""
    short_reads = 0

    def read(self, n=-1):
        r = super().read(n)
        if n is not None and n >= 0 and len(r) < n:
            self.short_reads += 1
        return r

    @property
    def pos(self):
        return self.tell()


class ConcEnv(_EnvBase):
    """native replay of one witness"""
    symbolic = False

    def __init__(self, witness, params=None, fill=0):
        self.w = witness
        self.params = params or {}
        self.failed = []
        self.passed = 0
        self.infeasible = False
        self.fill = fill          # strategy for inputs the witness does not mention (0: zeros/lower bound, 1..: patterns)
        self.defaulted = 0

    def _fill_bytes(self, name, n):
        self.defaulted += 1
        if self.fill == 0:
            return "00" * n
        if self.fill == 1:
            return "01" * n
        import hashlib
        out = b""
        ctr = 0
        while len(out) < n:
            out += hashlib.sha256(("%s/%d/%d" % (name, self.fill, ctr)).encode()).digest()
            ctr += 1
        return out[:n].hex()

    def _fill_int(self, name, lo, hi):
        self.defaulted += 1
        if lo is None and hi is None:
            return [0, 1, 7, -1, 1000003][self.fill % 5]
        if lo is None:
            return hi - [0, 1, 7, 1000003, 2][self.fill % 5]
        if hi is None:
            return lo + [0, 1, 7, 1000003, 2][self.fill % 5]
        return min(hi, lo + [0, 1, (hi - lo) // 2, 7, (hi - lo)][self.fill % 5])

    def _get(self, name, default=None):
        # an input the witness does not mention was still unconstrained when the assertion
        # failed: any admissible value will do
        if name not in self.w:
            return default
        return self.w[name]

    def bv(self, name, bits, lo=None, hi=None):
        v = self._get(name)
        v = int(v) if v is not None else self._fill_int(name, lo or 0, hi if hi is not None else (1 << bits) - 1)
        if (lo is not None and v < lo) or (hi is not None and v > hi):
            raise Infeasible()
        return v

    def int(self, name, lo=None, hi=None):
        v = self._get(name)
        v = int(v) if v is not None else self._fill_int(name, lo, hi)
        if (lo is not None and v < lo) or (hi is not None and v > hi):
            raise Infeasible()
        return v

    def sbv(self, name, bits=64):
        return self.int(name, -(1 << (bits - 1)), (1 << (bits - 1)) - 1)

    def bytes(self, name, n, mode="bv"):
        h = self._get(name)
        b = bytes.fromhex(h if h is not None else self._fill_bytes(name, n)) if n else b""
        assert len(b) == n, "witness length mismatch for %s" % name
        return b

    def bytes_of(self, name, bits):
        return self.bytes(name, bits // 8)

    def chars(self, name, n, alphabet=None, mode="int", lo=0, hi=0x10ffff):
        s = self._get(name, (alphabet[0] if alphabet else chr(max(lo, 97) if lo <= 97 <= hi else lo)) * n) if n else ""
        assert len(s) == n
        return s

    def const(self, name, value):
        return value

    def choose(self, name, lo, hi):
        v = int(self._get(name, lo))
        if not lo <= v <= hi:
            raise Infeasible()
        return v

    def reader(self, b):
        return CountingBytesIO(b)

    def assume(self, cond):
        if not cond:
            raise Infeasible()

    def check(self, cond, label, extra=None):
        if cond:
            self.passed += 1
            return True
        self.failed.append(label)
        return False

    def fail(self, label, extra=None):
        return self.check(False, label)

    def eq(self, a, b):
        return a == b

    def check_eq(self, a, b, label):
        return self.check(a == b, label)

    def note(self, k, v):
        pass

    def ite(self, c, a, b):
        return a if c else b

    def preempt(self, op_a, op_b, max_points=4000):
        """native counterpart: A and B run on two real threads; A is suspended at the j-th 'line' event inside the
        repository (j = witness '_native_preempt', 0: no pre-emption), B runs to completion, A resumes."""
        import threading
        import sys as _sys
        j = int(self.w.get("_native_preempt", 0))
        repo = os.path.join(os.environ.get("VERIF_REPO", "/repo"), "")
        go_b, b_done = threading.Event(), threading.Event()
        box = {}
        state = {"n": 0, "fired": False}

        def tracer(frame, event, arg):
            if not frame.f_code.co_filename.startswith(repo):
                return None
            if event == "line":
                state["n"] += 1
                if state["n"] == j and not state["fired"]:
                    state["fired"] = True
                    go_b.set()
                    b_done.wait()
            return tracer

        def run_a():
            if j or self.w.get("_count_points"):
                _sys.settrace(tracer)
            try:
                box["a"] = self.run(op_a)
            finally:
                _sys.settrace(None)

        def run_b():
            go_b.wait()
            box["b"] = self.run(op_b)
            b_done.set()
        ta, tb = threading.Thread(target=run_a), threading.Thread(target=run_b)
        ta.start()
        tb.start()
        ta.join()
        if not state["fired"]:
            go_b.set()
        tb.join()
        self.preempt_points = state["n"]
        self.preempt_fired = state["fired"]
        return box.get("a"), box.get("b")


from .values import eq_term as _eq_term


# ------------------------------------------------------------------------------------------------
class Repo:
    """attribute access to the repository's modules: R.helper, R.bip32, ..."""

    def __init__(self, pkg="btc_hd_wallet"):
        self._pkg = pkg

    def __getattr__(self, name):
        if name == "main":
            name = "__main__"
        m = importlib.import_module(self._pkg + "." + name)
        return m


def load_repo(instrumented, root=None):
    root = root or os.environ.get("VERIF_REPO", "/repo")
    if instrumented:
        from . import instrument
        instrument.install(root)
    else:
        for m in [m for m in sys.modules if m.split(".")[0] == "btc_hd_wallet"]:
            del sys.modules[m]
        if root not in sys.path or sys.path[0] != root:
            sys.path.insert(0, root)
    return Repo()
