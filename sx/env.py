"""sx.env -- environment models (every stub here is part of each claim and is listed in evidence).

Symbolic side:
  * hashes / HMAC / PBKDF2 : uninterpreted functions over bit-vectors, one per (name, input
    lengths).  Nothing is assumed about them except that they are functions with fixed output
    length.  On fully concrete input the real function is called.
  * secp256k1 via `ecdsa`  : isomorphic group model.  The group is cyclic of prime order n, so a
    point is represented by its discrete logarithm in (Z_n, +); INFINITY = 0; k*G = k.  The SEC
    encoding is (2 + PAR(d)) || X(d) with PAR, X, Y uninterpreted, and DLOG its inverse on valid
    encodings, so code under test cannot "see" the discrete log.
Native side (replay): the real hashlib / hmac / ecdsa.
"""
import hashlib
import hmac as _hmac

import z3

from . import core
from .core import Unsupported, EngineAbort as EngineAbortTypes
from .values import (SxInt, SxBool, SxBytes, SxStr, SxChar, is_sym, mkbool, z3bool, bytes_from_bv, _mkbytes,
                     concretize_small, sym_ite)
from . import instrument

N = 0xFFFFFFFFFFFFFFFFFFFFFFFFFFFFFFFEBAAEDCE6AF48A03BBFD25E8CD0364141
P = 2 ** 256 - 2 ** 32 - 977


def C():
    return core.CTX


def _log(kind, *rec):
    C().env.setdefault("calls", []).append((kind,) + rec)


def oracle_table(model):
    """all hash applications of the current path, evaluated under a model: the hash values the
    solver chose (used by the replay when a witness needs substituted hash outputs)"""
    def ev(b):
        if isinstance(b, (bytes, bytearray)):
            return bytes(b).hex()
        out = []
        for x in b.bs:
            if isinstance(x, int):
                out.append(x)
            else:
                v = model.eval(x.e, model_completion=True)
                out.append(v.as_long() & 0xff)
        return bytes(out).hex()
    tab = []
    for c in C().env.get("calls", []):
        kind = c[0]
        try:
            if kind in ("sha256", "sha512", "ripemd160"):
                tab.append([kind, [ev(c[1])], ev(c[2])])
            elif kind == "hmac512":
                tab.append([kind, [ev(c[1]), ev(c[2])], ev(c[3])])
            elif kind == "pbkdf2":
                tab.append([kind, [c[1], ev(c[2]), ev(c[3]), c[4], c[5]], ev(c[6])])
            elif kind == "ckd":
                # application of the child-derivation contract (parent key, chain code, index -> child key, chain code)
                tab.append([kind, [ev(c[1]), ev(c[2]), ev(c[3])], ev(c[4]) + ev(c[5])])
        except Exception:
            pass
    return tab


def calls(kind=None):
    cs = C().env.get("calls", [])
    return [c for c in cs if kind is None or c[0] == kind]


def _as_bytes(x):
    if isinstance(x, (bytes, bytearray)):
        return bytes(x)
    if isinstance(x, SxBytes):
        c = x.concrete()
        return c if c is not None else x
    if isinstance(x, memoryview):
        return bytes(x)
    raise TypeError("a bytes-like object is required, not '%s'" % type(x).__name__)


def _bv_of(b):
    if isinstance(b, bytes):
        return z3.BitVecVal(int.from_bytes(b, "big"), 8 * len(b)) if b else None
    return b.bv()


def uf_hash(name, outbytes, *args, real=None):
    """uninterpreted function name_{len(args)...} applied to byte strings"""
    args = [_as_bytes(a) for a in args]
    # NB: the uninterpreted function is used on concrete arguments too -- mixing the real hash for
    # constants with UF values for symbolic arguments that may equal those constants is unsound
    lens = [len(a) for a in args]
    r = _uf_apply(name, outbytes, args, lens)
    if all(isinstance(a, bytes) for a in args) and real is not None:
        # a true fact about the real function at a concrete point (sound to add)
        try:
            rv = real(*args)
            c = C()
            for x, y in zip(r.bs, rv):
                if isinstance(x, SxInt):
                    c.add(x.e == y)
            return rv          # concrete in, concrete out; the UF is pinned to it at this point
        except EngineAbortTypes:
            raise
        except Exception:
            pass
    return r


def _uf_apply(name, outbytes, args, lens):
    if INT_MODE_HASHES or any(isinstance(x, SxInt) and not x.is_bv for a in args if not isinstance(a, bytes) for x in a.bs):
        return _uf_hash_int(name, outbytes, args, lens)
    dom = [z3.BitVecSort(8 * l) for l in lens if l]
    fname = "%s_%s" % (name, "_".join(map(str, lens)))
    if not dom:
        return bytes_from_bv(z3.BitVec(fname, 8 * outbytes), outbytes)
    f = z3.Function(fname, *dom, z3.BitVecSort(8 * outbytes))
    e = f(*[_bv_of(a) for a in args if len(a)])
    return bytes_from_bv(e, outbytes)


INT_MODE_HASHES = False     # set by harnesses whose byte strings are mathematical integers (Base58)


def _uf_hash_int(name, outbytes, args, lens):
    """same, for byte strings whose elements are mathematical integers (Base58 harnesses): one
    integer-valued uninterpreted function per output byte, over one integer argument per input byte"""
    flat = []
    for a in args:
        for x in (a if isinstance(a, bytes) else a.bs):
            flat.append(z3.IntVal(x) if isinstance(x, int) else x.to_int_mode().e)
    fname = "%s_%s_i" % (name, "_".join(map(str, lens)))
    out = []
    c = C()
    for j in range(outbytes):
        if flat:
            f = z3.Function("%s%d" % (fname, j), *([z3.IntSort()] * len(flat)), z3.IntSort())
            e = f(*flat)
        else:
            e = z3.Int("%s%d" % (fname, j))
        c.add(e >= 0, e <= 255)
        out.append(SxInt(e, 0, 255))
    return SxBytes(out)


# ------------------------------------------------------------------------------- hashes
def _real_sha256(b):
    return hashlib.sha256(b).digest()


def _real_sha512(b):
    return hashlib.sha512(b).digest()


def _real_hmac512(k, m):
    return _hmac.new(k, m, hashlib.sha512).digest()


def _opaque_hash(name, outbytes, b):
    from . import text as _text
    f = z3.Function("%s_o" % name, _text.OBytes, z3.BitVecSort(8 * outbytes))
    return bytes_from_bv(f(b.e), outbytes)


def sha256(b):
    from . import text as _text
    if isinstance(b, _text.SxOpaqueBytes):
        return _opaque_hash("sha256", 32, b)
    r = uf_hash("sha256", 32, b, real=_real_sha256)
    _log("sha256", b, r)
    return r


def sha512(b):
    from . import text as _text
    if isinstance(b, _text.SxOpaqueBytes):
        return _opaque_hash("sha512", 64, b)
    r = uf_hash("sha512", 64, b, real=_real_sha512)
    _log("sha512", b, r)
    return r


def hmac512(key, msg):
    r = uf_hash("hmac512", 64, key, msg, real=_real_hmac512)
    _log("hmac512", key, msg, r)
    return r


def ripemd160_uf(b):
    r = uf_hash("ripemd160", 20, b, real=ref_ripemd160)
    _log("ripemd160", b, r)
    return r


def hash160(b):
    return ripemd160_uf(sha256(b))


def hash256(b):
    return sha256(sha256(b))


def ref_ripemd160(b):
    try:
        return hashlib.new("ripemd160", b).digest()
    except Exception:
        from spec import ripemd as _r
        return _r.ripemd160(b)


class _HashObj:
    def __init__(self, fn, name, data=b""):
        self.fn = fn
        self.name = name
        self.data = data
        self.digest_size = {"sha256": 32, "sha512": 64}[name]

    def update(self, d):
        self.data = self.data + d

    def digest(self):
        return self.fn(self.data)

    def hexdigest(self):
        return self.digest().hex()

    def copy(self):
        return _HashObj(self.fn, self.name, self.data)


def _hl_sha256(data=b"", **k):
    return _HashObj(sha256, "sha256", data)


def _hl_sha512(data=b"", **k):
    return _HashObj(sha512, "sha512", data)


class _HmacObj:
    def __init__(self, key, msg, digestmod):
        self.key = key
        self.msg = msg if msg is not None else b""
        self.digestmod = digestmod

    def update(self, m):
        self.msg = self.msg + m

    def digest(self):
        dm = self.digestmod
        if dm is hashlib.sha512 or dm == "sha512" or getattr(dm, "__name__", "") == "openssl_sha512":
            return hmac512(self.key, self.msg)
        name = dm if isinstance(dm, str) else getattr(dm, "__name__", str(dm))
        r = uf_hash("hmac_%s" % name.replace("openssl_", ""), hashlib.new(name.replace("openssl_", "")).digest_size,
                    self.key, self.msg,
                    real=lambda k, m: _hmac.new(k, m, dm).digest())
        _log("hmac_" + name, self.key, self.msg, r)
        return r

    def hexdigest(self):
        return self.digest().hex()


def _hmac_new(key, msg=None, digestmod=""):
    if not digestmod:
        raise TypeError("Missing required parameter 'digestmod'.")
    return _HmacObj(key, msg, digestmod)


def _hmac_digest(key, msg, digest):
    return _HmacObj(key, msg, digest).digest()


def _pbkdf2(hash_name, password, salt, iterations, dklen=None):
    pw, sa = password, salt
    from . import text as _text
    if isinstance(pw, _text.SxOpaqueBytes) or isinstance(sa, _text.SxOpaqueBytes):
        if is_sym(iterations) or is_sym(dklen) or not isinstance(hash_name, str):
            raise Unsupported("symbolic pbkdf2 parameters")
        r = _text.pbkdf2_opaque(hash_name, pw, sa, iterations, dklen)
        _log("pbkdf2_opaque", hash_name, pw, sa, iterations, dklen, r)
        return r
    if is_sym(iterations) or is_sym(dklen):
        raise Unsupported("symbolic pbkdf2 parameters")
    out = dklen if dklen is not None else hashlib.new(hash_name).digest_size
    r = uf_hash("pbkdf2_%s_%d" % (hash_name, iterations), out, pw, sa,
                real=lambda p, s: hashlib.pbkdf2_hmac(hash_name, p, s, iterations, dklen))
    _log("pbkdf2", hash_name, pw, sa, iterations, dklen, r)
    return r


class OpaqueBytes:
    pass


def _hl_new(name, data=b"", **k):
    """hashlib.new(name[, data]): the same models as the named constructors; other algorithms run natively on concrete data"""
    n = str(name).lower().replace("-", "")
    if n == "sha256":
        return _HashObj(sha256, "sha256", data)
    if n == "sha512":
        return _HashObj(sha512, "sha512", data)
    if n in ("ripemd160", "rmd160"):
        return _HashObj(ripemd160_uf, "ripemd160", data)
    from .values import is_sym
    if is_sym(data):
        raise Unsupported("hashlib.new(%r) on symbolic data" % (name,))
    return hashlib.new(name, data, **k)


def install_hash_models():
    instrument.register(hashlib.new, _hl_new)
    instrument.register(hashlib.sha256, _hl_sha256)
    instrument.register(hashlib.sha512, _hl_sha512)
    instrument.register(_hmac.new, _hmac_new)
    instrument.register(_hmac.HMAC, _hmac_new)
    if hasattr(_hmac, "digest"):
        instrument.register(_hmac.digest, _hmac_digest)
    instrument.register(hashlib.pbkdf2_hmac, _pbkdf2)


# ------------------------------------------------------------------------------- group model
_PAR = z3.Function("SEC_PAR", z3.BitVecSort(256), z3.BitVecSort(1))
_X = z3.Function("SEC_X", z3.BitVecSort(256), z3.BitVecSort(256))
_Y = z3.Function("SEC_Y", z3.BitVecSort(256), z3.BitVecSort(256))
_DLOG = z3.Function("SEC_DLOG", z3.BitVecSort(264), z3.BitVecSort(256))
_VALID = z3.Function("SEC_VALID", z3.BitVecSort(264), z3.BoolSort())
_DLOGU = z3.Function("SEC_DLOG_U", z3.BitVecSort(512), z3.BitVecSort(256))
_VALIDU = z3.Function("SEC_VALID_U", z3.BitVecSort(512), z3.BoolSort())


class MalformedPointError(AssertionError):
    """stand-in raised by the model; replaced by ecdsa's own class when ecdsa is importable"""


try:
    import ecdsa as _ecdsa
    MalformedPointError = _ecdsa.errors.MalformedPointError      # noqa
except Exception:                                                # pragma: no cover
    _ecdsa = None


def _mraise(exc):
    """an exception the *modelled library* raises (not an engine fault)"""
    exc._sx_model = True
    raise exc


def _d256(d):
    """discrete log (int / SxInt in [0, n-1]) as BV256"""
    if isinstance(d, int):
        return z3.BitVecVal(d, 256)
    return d.ubits(256)


class ModelPoint:
    """group element given by its discrete log"""

    def __init__(self, d):
        self.d = d

    def __add__(self, o):
        if isinstance(o, ModelPoint):
            return ModelPoint((self.d + o.d) % N)
        if _is_real_infinity(o):
            return self
        return NotImplemented
    __radd__ = __add__

    def __neg__(self):
        return ModelPoint((N - self.d) % N)

    def __sub__(self, o):
        return self + (-o)

    def __mul__(self, k):
        if isinstance(k, (int, SxInt)):
            if isinstance(self.d, int) and self.d == 1:
                return ModelPoint(k % N)
            if isinstance(k, int):
                if isinstance(self.d, int):
                    return ModelPoint(self.d * k % N)
                raise Unsupported("scalar multiple of a symbolic point")
            raise Unsupported("symbolic scalar times symbolic point")
        return NotImplemented
    __rmul__ = __mul__

    def double(self):
        return self + self

    def __eq__(self, o):
        if isinstance(o, ModelPoint):
            return self.d == o.d
        if _is_real_infinity(o):
            return self.d == 0
        return False

    def __ne__(self, o):
        r = self.__eq__(o)
        return (not r) if isinstance(r, bool) else ~r
    __hash__ = None

    def x(self):
        _coord_axioms(self.d)
        return SxInt.unsigned(_X(_d256(self.d)))

    def y(self):
        _coord_axioms(self.d)
        return SxInt.unsigned(_Y(_d256(self.d)))

    def to_affine(self):
        return self

    def order(self):
        return N

    def curve(self):
        return _ecdsa.curves.SECP256k1.curve

    def to_bytes(self, encoding="raw"):
        return sec_of(self.d, encoding)


def _coord_axioms(d):
    """facts about affine coordinates that code comparing them relies on: two non-zero group elements have the same x
    exactly when they are equal or opposite; the same (x, y) exactly when they are equal; y is never 0 (odd group
    order), so P and -P differ in y parity"""
    c = C()
    seen = c.env.setdefault("coord_points", [])
    dv = _d256(d)
    if any(dv.eq(e) for e in seen):
        return
    nn = z3.BitVecVal(N, 256)
    for e in seen:
        same_x = _X(dv) == _X(e)
        opp = z3.ZeroExt(1, dv) + z3.ZeroExt(1, e) == z3.ZeroExt(1, nn)
        c.add(same_x == z3.Or(dv == e, opp))
        c.add(z3.And(same_x, _Y(dv) == _Y(e)) == (dv == e))
    seen.append(dv)


def _is_real_infinity(o):
    return _ecdsa is not None and o is _ecdsa.ellipticcurve.INFINITY


def sec_of(d, encoding="compressed"):
    """SEC bytes of the point with discrete log d (d != 0)"""
    dv = _d256(d)
    x = bytes_from_bv(_X(dv), 32)
    if encoding == "compressed":
        par = _PAR(dv)
        prefix = SxInt.unsigned(z3.Concat(z3.BitVecVal(1, 7), par))
        from .values import _small
        s = SxBytes([_small(prefix)] + x.bs)
        # DLOG is the inverse of the encoding; the encoding of a non-zero element is valid
        c = C()
        c.add(_DLOG(s.bv()) == dv)
        c.add(_VALID(s.bv()))
        _tag_sec(s, d, dv, "compressed")
        return s
    y = bytes_from_bv(_Y(dv), 32)
    if encoding == "uncompressed":
        s = SxBytes([4] + x.bs + y.bs)
    elif encoding == "raw":
        s = SxBytes(x.bs + y.bs)
    elif encoding == "hybrid":
        par = _PAR(dv)
        from .values import _small
        s = SxBytes([_small(SxInt.unsigned(z3.Concat(z3.BitVecVal(3, 7), par)))] + x.bs + y.bs)
    else:
        raise ValueError("unknown encoding %r" % (encoding,))
    xy = z3.Concat(_X(dv), _Y(dv))
    C().add(_DLOGU(xy) == dv, _VALIDU(xy))
    _tag_sec(s, d, dv, encoding)
    return s


def _tag_sec(s, d, dv, encoding):
    """remember that these bytes are the encoding of the element with discrete log d, so that
    decoding them again yields d directly (decode(encode(P)) = P) instead of going through DLOG"""
    key = dv.get_id()
    for idx, b in enumerate(s.bs):
        if isinstance(b, SxInt):
            b.org = ("sec", key, d, idx, len(s.bs), encoding)


def _sec_provenance(b):
    """d if b is, byte for byte, a SEC encoding produced by sec_of(d)"""
    first = None
    for idx, x in enumerate(b.bs):
        if isinstance(x, int):
            if idx == 0 and len(b.bs) == 65 and x == 4:
                continue
            return None
        o = x.org
        if not o or o[0] != "sec" or o[3] != idx or o[4] != len(b.bs):
            return None
        if first is None:
            first = o
        elif o[1] != first[1]:
            return None
    return first[2] if first else None


class ModelVK:
    """ecdsa.VerifyingKey stand-in"""

    def __init__(self, d):
        self.d = d
        self.pubkey = _Pub(ModelPoint(d))
        self.curve = _ecdsa.curves.SECP256k1 if _ecdsa else None

    def to_string(self, encoding="raw"):
        return sec_of(self.d, encoding)

    def __eq__(self, o):
        if isinstance(o, ModelVK):
            return self.d == o.d
        return False
    __hash__ = None


class _Pub:
    def __init__(self, point):
        self.point = point


class ModelSK:
    def __init__(self, k, kbytes):
        self.k = k
        self.kbytes = kbytes
        self.privkey = _Priv(k)
        self.verifying_key = ModelVK(k)

    def get_verifying_key(self):
        return self.verifying_key

    def to_string(self):
        return self.kbytes


class _Priv:
    def __init__(self, k):
        self.secret_multiplier = k


def _sk_from_string(cls, string, curve=None, hashfunc=None):
    _check_curve(curve)
    b = _as_bytes(string)
    if len(b) != 32:
        _mraise(MalformedPointError("Invalid length of private key, received %d, expected 32" % len(b)))
    k = instrument.sx_int_from_bytes(b, "big")
    _log("sk_from_string", b)
    return _sk_from_int(k, b)


def _sk_from_int(k, b=None):
    if not (bool(k >= 1) and bool(k < N)):
        _mraise(MalformedPointError("Invalid value for secexp, expected integer between 1 and %d" % N))
    if b is None:
        b = k.to_bytes(32, "big")
    if isinstance(k, SxInt):
        k = SxInt.bv(k.e, max(k.lo, 1), min(k.hi, N - 1)) if k.is_bv else k
    return ModelSK(k, b)


def _sk_from_secret_exponent(cls, secexp, curve=None, hashfunc=None):
    _check_curve(curve)
    if isinstance(secexp, SxInt) and not secexp.is_bv:
        raise Unsupported("Int-mode secret exponent")
    _log("sk_from_secexp", secexp)
    return _sk_from_int(secexp)


def _check_curve(curve):
    if _ecdsa is not None and curve is not _ecdsa.curves.SECP256k1:
        raise Unsupported("ecdsa call with a curve other than SECP256k1 (default NIST192p?)")


def _vk_from_string(cls, string, curve=None, hashfunc=None, validate_point=True, valid_encodings=None):
    _check_curve(curve)
    b = _as_bytes(string)
    _log("vk_from_string", b)
    if isinstance(b, bytes):
        if len(b) not in (33, 64, 65):
            _mraise(MalformedPointError("Length of string does not match lengths of any of the enabled encodings"))
        raise Unsupported("concrete SEC bytes in the group model")
    d0 = _sec_provenance(b)
    if d0 is not None:
        return ModelVK(d0)
    L = len(b)
    if L == 33:
        p = b[0]
        if not bool((p == 2) | (p == 3) if not isinstance(p == 2, bool) or not isinstance(p == 3, bool) else (p in (2, 3))):
            _mraise(MalformedPointError("Malformed compressed point encoding"))
        e = b.bv()
        # -P has the same x and the other y parity (secp256k1 has no point with y = 0): 02||x is valid iff 03||x is
        C().add(_VALID(e) == _VALID(e ^ z3.BitVecVal(1 << 256, 264)))
        if not C().decide(_VALID(e)):
            _mraise(MalformedPointError("Encoding does not correspond to a point on curve"))
        d = _DLOG(e)
        c = C()
        c.add(z3.ULT(d, z3.BitVecVal(N, 256)), d != 0)
        # the encoding of DLOG(e) is e again
        c.add(z3.Concat(z3.BitVecVal(1, 7), _PAR(d), _X(d)) == e)
        return ModelVK(SxInt.bv(z3.ZeroExt(1, d), 1, N - 1))
    if L in (64, 65):
        if L == 65:
            p = b[0]
            if not (bool(p == 4) or bool(p == 6) or bool(p == 7)):     # 06/07: hybrid form, same point data
                _mraise(MalformedPointError("Invalid X9.62 encoding of the public point"))
            xy = b[1:].bv()
        else:
            xy = b.bv()
        if not validate_point:
            # ecdsa documents that validate_point=False skips the curve-membership test of an explicitly given (x, y):
            # whatever the coordinates are, a key object comes back (compressed encodings still need a square root)
            d = _DLOGU(xy)
            c = C()
            c.add(z3.ULT(d, z3.BitVecVal(N, 256)), d != 0)
            c.add(z3.Implies(_VALIDU(xy), z3.Concat(_X(d), _Y(d)) == xy))
            return ModelVK(SxInt.bv(z3.ZeroExt(1, d), 1, N - 1))
        if not C().decide(_VALIDU(xy)):
            _mraise(MalformedPointError("Point does not lay on the curve"))
        d = _DLOGU(xy)
        c = C()
        c.add(z3.ULT(d, z3.BitVecVal(N, 256)), d != 0, z3.Concat(_X(d), _Y(d)) == xy)
        return ModelVK(SxInt.bv(z3.ZeroExt(1, d), 1, N - 1))
    _mraise(MalformedPointError("Length of string does not match lengths of any of the enabled encodings"))


def _vk_from_public_point(cls, point, curve=None, hashfunc=None, validate_point=True):
    _check_curve(curve)
    if _is_real_infinity(point):
        _mraise(TypeError("'<=' not supported between instances of 'int' and 'NoneType'"))
    if not isinstance(point, ModelPoint):
        raise Unsupported("real ecdsa point in the group model")
    if bool(point.d == 0):
        _mraise(TypeError("'<=' not supported between instances of 'int' and 'NoneType'"))
    return ModelVK(point.d)


def install_group_model(repo_modules=()):
    if _ecdsa is None:
        return
    instrument.register(_ecdsa.SigningKey.from_string.__func__, _sk_from_string)
    instrument.register(_ecdsa.SigningKey.from_secret_exponent.__func__, _sk_from_secret_exponent)
    instrument.register(_ecdsa.VerifyingKey.from_string.__func__, _vk_from_string)
    instrument.register(_ecdsa.VerifyingKey.from_public_point.__func__, _vk_from_public_point)
    # module-level generator / infinity objects imported by the repository are replaced by model
    # points so that arithmetic on them (G * k, P + Q, P == INFINITY) stays inside the model
    gen = _ecdsa.ecdsa.generator_secp256k1
    gen2 = _ecdsa.curves.SECP256k1.generator
    for m in repo_modules:
        for k, v in list(vars(m).items()):
            if v is gen or v is gen2:
                setattr(m, k, ModelPoint(1))
            elif v is _ecdsa.ellipticcurve.INFINITY:
                setattr(m, k, ModelPoint(0))


# ------------------------------------------------------------------------------- native oracles
class NativeOracle:
    """what the spec side uses during native replay: the real primitives"""
    symbolic = False

    def __init__(self, table=None):
        self.remap = {}
        self.seen_args = set()
        self.table = {}
        for kind, args, out in (table or []):
            if kind == "ckd":
                # the PRF output that makes the real CKDpriv produce exactly this child: IL = child - parent (mod n), IR = chain code
                try:
                    k, c, i = int(args[0], 16), bytes.fromhex(args[1]), int(args[2], 16)
                    ck, cc = int(out[:64], 16), out[64:]
                    if not (1 <= k < N and 1 <= ck < N):
                        continue
                    data = (b"\x00" + k.to_bytes(32, "big") if i >= 2 ** 31 else self.sec(k)) + i.to_bytes(4, "big")
                    il = (ck - k) % N
                    self.table[("hmac512", (c.hex(), data.hex()))] = "%064x" % il + cc
                except Exception:
                    pass
                continue
            self.table[(kind, tuple(args) if kind != "pbkdf2" else (args[0], args[1], args[2], args[3], args[4]))] = out

    def _t(self, kind, *args):
        key = (kind, tuple(bytes(a).hex() for a in args))
        t = self.table.get(key)
        if t is None and self.table:
            # arguments that went through the group model (SEC bytes) differ natively: the i-th
            # distinct argument tuple of a kind gets the i-th distinct table entry of that kind
            # (keeps the substitution a function)
            if key in self.remap:
                t = self.remap[key]
            else:
                used = set(self.remap.values())
                for (k2, a2), out in self.table.items():
                    if k2 == kind and a2 not in self.seen_args and out not in used:
                        self.seen_args.add(a2)
                        self.remap[key] = out
                        t = out
                        break
                else:
                    self.remap[key] = None
        else:
            self.seen_args.add(key[1])
        return None if t is None else bytes.fromhex(t)

    def sha256(self, b):
        return self._t("sha256", b) or hashlib.sha256(b).digest()

    def sha512(self, b):
        return self._t("sha512", b) or hashlib.sha512(b).digest()

    def hash256(self, b):
        return self.sha256(self.sha256(b))

    def hmac512(self, k, m):
        return self._t("hmac512", k, m) or _hmac.new(k, m, hashlib.sha512).digest()

    def ripemd160(self, b):
        return self._t("ripemd160", b) or ref_ripemd160(b)

    def hash160(self, b):
        return self.ripemd160(self.sha256(b))

    def patch_repo(self, R):
        """substitute the hash primitives inside the repository's modules (from outside)"""
        import types
        orc = self

        class _H:
            def __init__(self, fn, data=b""):
                self.fn, self.data = fn, bytes(data)

            def update(self, d):
                self.data += bytes(d)

            def digest(self):
                return self.fn(self.data)

            def hexdigest(self):
                return self.digest().hex()

        class FakeHashlib(types.ModuleType):
            def __getattr__(self, n):
                return getattr(hashlib, n)
        fh = FakeHashlib("hashlib")
        fh.sha256 = lambda data=b"": _H(orc.sha256, data)
        fh.sha512 = lambda data=b"": _H(orc.sha512, data)

        class FakeHmac(types.ModuleType):
            def __getattr__(self, n):
                return getattr(_hmac, n)
        fm = FakeHmac("hmac")

        def new(key, msg=None, digestmod=None):
            if digestmod in (hashlib.sha512, "sha512") or digestmod is fh.sha512:
                return _H(lambda m: orc.hmac512(key, m), msg or b"")
            return _hmac.new(key, msg, digestmod)
        fm.new = new
        import sys
        for name, m in list(sys.modules.items()):
            if name.split(".")[0] == "btc_hd_wallet" and m is not None:
                if getattr(m, "hashlib", None) is hashlib:
                    m.hashlib = fh
                if getattr(m, "hmac", None) is _hmac:
                    m.hmac = fm
                if hasattr(m, "ripemd160") and "ripemd" not in name:
                    real = m.ripemd160
                    m.ripemd160 = (lambda real: lambda b: orc._t("ripemd160", b) or real(b))(real)

    def pbkdf2(self, name, pw, salt, it, dklen=None):
        return hashlib.pbkdf2_hmac(name, pw, salt, it, dklen)

    # group
    def sec(self, k, compressed=True):
        import ecdsa
        vk = ecdsa.SigningKey.from_secret_exponent(k, curve=ecdsa.SECP256k1).get_verifying_key()
        return vk.to_string("compressed" if compressed else "uncompressed")

    def sec_valid(self, b):
        """is b (33: compressed, 64: raw, 65: uncompressed / hybrid) the encoding of a point of secp256k1?  Written from
        the curve equation y^2 = x^3 + 7 over F_p; independent of ecdsa."""
        P = 2 ** 256 - 2 ** 32 - 977
        b = bytes(b)
        if len(b) == 33:
            x = int.from_bytes(b[1:], "big")
            if b[0] not in (2, 3) or x >= P:
                return False
            a = (pow(x, 3, P) + 7) % P
            return pow(a, (P - 1) // 2, P) in (0, 1)
        if len(b) == 65:
            if b[0] not in (4, 6, 7):
                return False
            xy = b[1:]
        elif len(b) == 64:
            xy = b
        else:
            return False
        x, y = int.from_bytes(xy[:32], "big"), int.from_bytes(xy[32:], "big")
        if x >= P or y >= P or (y * y - pow(x, 3, P) - 7) % P != 0:
            return False
        if len(b) == 65 and b[0] in (6, 7) and (y & 1) != (b[0] & 1):
            return False
        return True

    def point_add_sec(self, sec_a, k):
        """SEC(P + k*G) for SEC-encoded P; None for infinity"""
        import ecdsa
        pa = ecdsa.VerifyingKey.from_string(sec_a, curve=ecdsa.SECP256k1).pubkey.point
        q = pa + ecdsa.SECP256k1.generator * k
        if q == ecdsa.ellipticcurve.INFINITY:
            return None
        return ecdsa.VerifyingKey.from_public_point(q, curve=ecdsa.SECP256k1).to_string("compressed")


class SymOracle:
    symbolic = True
    sha256 = staticmethod(sha256)
    hash256 = staticmethod(hash256)
    hmac512 = staticmethod(hmac512)
    ripemd160 = staticmethod(ripemd160_uf)
    hash160 = staticmethod(hash160)

    def pbkdf2(self, name, pw, salt, it, dklen=None):
        return _pbkdf2(name, pw, salt, it, dklen)

    def sec(self, k, compressed=True):
        return sec_of(k, "compressed" if compressed else "uncompressed")

    def sec_valid(self, b):
        """the model's (uninterpreted) curve-membership predicate of an encoding, as a solver term"""
        from .values import mkbool
        if len(b) == 33:
            return mkbool(_VALID(b.bv()))
        xy = b[1:] if len(b) == 65 else b
        return mkbool(_VALIDU(xy.bv()))
