"""sx.runner -- runs the cases of one property in parallel, replays witnesses natively, matches
known findings, writes evidence, decides the exit code.

exit 0  holds on everything explored (every path explored, every query unsat)
exit 1  VIOLATION property=<id> replay=<path>   (witness reproduced against the native code)
exit 2  inconclusive / machinery error (never reported as success, never as a violation)
"""
import argparse
import concurrent.futures as cf
import hashlib
import importlib
import json
import multiprocessing as mp
import os
import random
import subprocess
import sys
import time
import traceback

VERIF = os.path.dirname(os.path.dirname(os.path.abspath(__file__)))
if VERIF not in sys.path:
    sys.path.insert(0, VERIF)


class Case:
    def __init__(self, name, fn, params=None, need=(), max_paths=20000, max_decisions=4000, sym=True,
                 timeout_ms=None, weight=1):
        self.name = name
        self.fn = fn                  # name of a function in the property module
        self.params = params or {}
        self.need = tuple(need)       # labels that must be discharged at least once (vacuity guard)
        self.max_paths = max_paths
        self.max_decisions = max_decisions
        self.sym = sym
        self.timeout_ms = timeout_ms
        self.weight = weight

    def as_dict(self):
        return dict(name=self.name, fn=self.fn, params=self.params)


def _worker_init():
    # quiet z3 / keep workers single-threaded
    os.environ.setdefault("OMP_NUM_THREADS", "1")
    # a worker must not outlive the runner (a killed or timed-out check would otherwise leave solvers running)
    try:
        import ctypes
        import signal
        ctypes.CDLL("libc.so.6", use_errno=True).prctl(1, signal.SIGKILL)      # PR_SET_PDEATHSIG
    except Exception:
        pass


def run_case(prop_id, case_dict, pins=None):
    """executed in a worker process: explore one case symbolically"""
    t0 = time.time()
    out = dict(case=case_dict["name"], fn=case_dict["fn"], params=case_dict["params"], error=None)
    try:
        zs = case_dict.get("z3_seed")
        if zs:
            import z3
            z3.set_param("smt.random_seed", int(zs))
            z3.set_param("sat.random_seed", int(zs))
        from sx import core, instrument, env as sxenv
        from sx.harness import SymEnv, load_repo
        mod = importlib.import_module("props." + prop_id)
        yp = getattr(mod, "YIELD_POINTS", False)
        instrument.YIELD_POINTS = bool(yp.get(os.environ.get("VERIF_TIER_ACTIVE", "quick")) if isinstance(yp, dict) else yp)
        R = load_repo(True)
        sxenv.install_hash_models()
        if hasattr(mod, "setup_sym"):
            mod.setup_sym(R)
        instrument.snapshot_globals([m for n, m in sys.modules.items()
                                     if n.split(".")[0] == "btc_hd_wallet" and m is not None])
        fn = getattr(mod, case_dict["fn"])
        labels = {}
        path_samples = []

        def body(c):
            E = SymEnv(c, case_dict["params"], pins)
            E.H = sxenv.SymOracle()
            ret = None
            try:
                ret = fn(E, R, **case_dict["params"])
                return ret
            finally:
                for k, v in E.labels.items():
                    labels[k] = labels.get(k, 0) + v
                if len(path_samples) < 2 and not pins:
                    try:
                        m = c._model()
                        if m is not None:
                            ex = {k: (v if not isinstance(v, str) or len(v) <= 80 else v[:80] + "...") for k, v in c.model_inputs(m).items()}
                            path_samples.append(dict(branch_decisions=len(c.trail), assertions_on_path=c.checks,
                                                     an_input_on_this_path=ex, outcome=repr(ret)[:60]))
                    except BaseException:
                        pass

        res = core.explore(body, max_paths=case_dict.get("max_paths", 20000),
                           max_decisions=case_dict.get("max_decisions", 4000),
                           timeout_ms=case_dict.get("timeout_ms"),
                           deadline=time.time() + float(os.environ.get("VERIF_CASE_DEADLINE_S") or
                                                         ("3600" if os.environ.get("VERIF_TIER_ACTIVE") == "thorough" else "900")),
                           stop_file=case_dict.get("stop_file"))
        d = res.as_dict()
        out.update(d)
        out["labels"] = labels
        out["path_samples"] = path_samples
        out["sources"] = {k: v[:3] for k, v in instrument.encoded_sources().items()}
        rets = [r for r in res.returns if r is not None]
        out["returns"] = _summ(rets)
    except BaseException as e:          # engine aborts are BaseException
        out["error"] = "%s: %s" % (type(e).__name__, e)
        out["trace"] = traceback.format_exc()[-3000:]
    out["wall"] = round(time.time() - t0, 3)
    return out


def _summ(rets):
    cnt = {}
    for r in rets:
        k = json.dumps(r, default=str, sort_keys=True)[:120]
        cnt[k] = cnt.get(k, 0) + 1
    return dict(sorted(cnt.items(), key=lambda kv: -kv[1])[:12])


def replay_native(prop_id, rec):
    """run the harness natively on a witness in a fresh interpreter; returns dict"""
    p = subprocess.run([sys.executable, "-m", "sx.replay", prop_id], input=json.dumps(rec), text=True,
                       capture_output=True, cwd=VERIF, env=dict(os.environ, PYTHONPATH=VERIF), timeout=600)
    try:
        return json.loads(p.stdout.strip().splitlines()[-1])
    except Exception:
        return dict(status="error", detail=(p.stdout + p.stderr)[-2000:])


def load_known(prop_id):
    known, fixed = [], []
    path = os.path.join(VERIF, "known_findings.txt")
    if not os.path.exists(path):
        return known, fixed
    for line in open(path):
        line = line.strip()
        if not line or line.startswith("#"):
            continue
        if line.startswith("known:"):
            body = line[len("known:"):].strip()
            parts = dict(p.split("=", 1) for p in body.split(" ; ")[0].split() if "=" in p)
            if parts.get("property") != prop_id:
                continue
            ent = dict(id=parts.get("id"), label=None, where=None, text=body)
            for seg in body.split(" ; ")[1:]:
                k, _, v = seg.partition("=")
                ent[k.strip()] = v.strip()
            known.append(ent)
        elif line.startswith("fixed:"):
            fixed.append(line)
    return known, fixed


def match_known(known, rec):
    for k in known:
        if k.get("label") and k["label"] != rec["label"]:
            continue
        if k.get("case") and not rec["case"].startswith(k["case"]):
            continue
        if k.get("where"):
            try:
                w = rec["witness"]
                if not eval(k["where"], {"__builtins__": {}}, dict(w=w, p=rec.get("params", {}), int=int, len=len)):
                    continue
            except Exception:
                continue
        return k
    return None


def main(argv=None):
    ap = argparse.ArgumentParser()
    ap.add_argument("prop")
    ap.add_argument("--tier", default=os.environ.get("VERIF_TIER", "quick"))
    ap.add_argument("--replay")
    ap.add_argument("--only", help="run only cases whose name contains this")
    ap.add_argument("--jobs", type=int, default=int(os.environ.get("VERIF_JOBS", "0")) or os.cpu_count() or 4)
    ap.add_argument("--no-evidence", action="store_true")
    a = ap.parse_args(argv)
    prop_id = a.prop
    tier = a.tier if a.tier in ("quick", "thorough") else "quick"
    seed = int(os.environ.get("VERIF_SEED", "0") or 0)
    t0 = time.time()
    mod = importlib.import_module("props." + prop_id)

    if a.replay:
        rec = json.load(open(a.replay))
        r = replay_native(prop_id, rec)
        print(json.dumps(r, indent=1))
        if r.get("status") == "reproduced":
            print("VIOLATION property=%s replay=%s" % (prop_id, a.replay))
            return 1
        return 0 if r.get("status") == "passed" else 2

    os.environ["VERIF_TIER_ACTIVE"] = tier
    cases = mod.cases(tier)
    if a.only:
        cases = [c for c in cases if a.only in c.name]
    random.Random(seed).shuffle(cases)
    cases.sort(key=lambda c: -c.weight)
    # submission order: heaviest and lightest alternately -- the long cases still start at once (makespan), and the
    # cheap ones report within seconds, so that a violation stops the run early (fail fast) instead of queueing
    # behind cases that run into their deadline on a broken tree
    inter = []
    lo, hi = 0, len(cases) - 1
    while lo <= hi:
        inter.append(cases[lo])
        if hi != lo:
            inter.append(cases[hi])
        lo, hi = lo + 1, hi - 1
    cases = inter
    results = []
    known, fixed = load_known(prop_id)
    seen_known = {}
    real = []
    nonrepro = []
    os.makedirs(os.path.join(VERIF, "replays"), exist_ok=True)
    seen_sig = set()
    # fail fast: once a violation has been reproduced natively (and is not a listed known finding) the verdict of the
    # run is decided; cases still exploring are told to stop through this file.  Never created on a tree that holds.
    stop_file = os.path.join("/var/tmp", "sx-stop-%d-%d" % (os.getpid(), int(time.time())))

    def handle_violations(r):
        for v in r.get("violations", []):
            rec = dict(property=prop_id, case=r["case"], fn=r["fn"], params=r["params"], label=v["label"],
                       witness=v["witness"], extra=v.get("extra"), oracle=v.get("oracle"))
            sig = (r["case"], v["label"])
            if sig in seen_sig:
                continue
            seen_sig.add(sig)
            rp = replay_native(prop_id, rec)
            rec["replay_result"] = rp
            if rp.get("witness_found"):
                rec["witness_from_model"] = rec["witness"]
                rec["witness"] = rp["witness_found"]
            h = hashlib.sha256(json.dumps(rec, sort_keys=True, default=str).encode()).hexdigest()[:12]
            path = os.path.join(VERIF, "replays", "%s-%s.json" % (prop_id, h))
            json.dump(rec, open(path, "w"), indent=1, default=str)
            if rp.get("status") != "reproduced":
                nonrepro.append((rec, path, rp))
                continue
            k = match_known(known, rec)
            if k:
                seen_known.setdefault(k["id"], (k, rec, path))
            else:
                real.append((rec, path))
                try:
                    open(stop_file, "w").close()
                except OSError:
                    pass

    ctx = mp.get_context("spawn")
    try:
        # (one process per case was tried and rejected: z3's run time on the wide integer queries of C10 varies by two
        #  orders of magnitude with the process history either way -- 1 s vs 244 s vs 'unknown' -- so cases without a
        #  verdict get a second run below instead)
        with cf.ProcessPoolExecutor(max_workers=min(a.jobs, max(1, len(cases))), mp_context=ctx,
                                    initializer=_worker_init) as ex:
            futs = {}
            for c in cases:
                d = c.as_dict()
                d.update(max_paths=c.max_paths, max_decisions=c.max_decisions, timeout_ms=c.timeout_ms, stop_file=stop_file)
                futs[ex.submit(run_case, prop_id, d)] = c
            for f in cf.as_completed(futs):
                c = futs[f]
                try:
                    r = f.result()
                except BaseException as e:
                    r = dict(case=c.name, fn=c.fn, params=c.params, error="worker died: %r" % (e,))
                r["need"] = list(c.need)
                results.append(r)
                handle_violations(r)
        # ---- second opinion for cases that ended without a verdict (solver 'unknown', deadline, dead worker): z3's
        # behaviour depends on what the (reused) worker process solved before, so such a case is run once more in a
        # process of its own with another solver seed; only if that run is inconclusive too does the case count as such
        if not real:
            def _open(r):
                return not r.get("violations") and (r.get("unknown") or r.get("error", "") and "worker died" in str(r.get("error"))
                                                    or (r.get("limit") and "deadline" in str(r.get("limit"))))
            again = [r for r in results if _open(r)][:8]
            if again:
                by_name = {c.name: c for c in cases}
                with cf.ProcessPoolExecutor(max_workers=min(a.jobs, len(again)), mp_context=ctx, initializer=_worker_init,
                                            max_tasks_per_child=1) as ex2:
                    futs2 = {}
                    for r in again:
                        c = by_name[r["case"]]
                        d = c.as_dict()
                        d.update(max_paths=c.max_paths, max_decisions=c.max_decisions, timeout_ms=c.timeout_ms, stop_file=stop_file, z3_seed=7)
                        futs2[ex2.submit(run_case, prop_id, d)] = (c, r)
                    for f in cf.as_completed(futs2):
                        c, old = futs2[f]
                        try:
                            r2 = f.result()
                        except BaseException as e:
                            continue
                        r2["need"] = list(c.need)
                        r2["retried"] = "first run ended with %s" % (old.get("unknown") or old.get("limit") or old.get("error"))
                        if not _open(r2) or r2.get("violations"):
                            results[results.index(old)] = r2
                            handle_violations(r2)
    finally:
        try:
            os.remove(stop_file)
        except OSError:
            pass

    # ---- translator validation: the repository's own test inputs through native code and through
    # the engine with the inputs pinned to those values
    tv = 0
    tv_err = []
    if hasattr(mod, "vectors"):
        tv, tv_err = validate_vectors(prop_id, mod, a.jobs)

    # ---- verdict
    inconclusive = []
    for r in results:
        if r.get("error"):
            inconclusive.append("%s: %s" % (r["case"], r["error"]))
            continue
        if r.get("limit") and not r.get("violations"):
            inconclusive.append("%s: limit %s" % (r["case"], r["limit"]))
        if r.get("incomplete") and not r.get("violations"):
            inconclusive.append("%s: incomplete (%s)" % (r["case"], r["incomplete"][0]))
        if r.get("unknown"):
            inconclusive.append("%s: solver unknown (%s)" % (r["case"], r["unknown"][0]))
        for lab in r.get("need", []):
            if not r.get("labels", {}).get(lab):
                inconclusive.append("%s: vacuous -- assertion %r never reached" % (r["case"], lab))
    inconclusive.extend(tv_err)

    for rec in VECTOR_VIOLATIONS:
        rec = dict(rec, property=prop_id)
        h = hashlib.sha256(json.dumps(rec, sort_keys=True, default=str).encode()).hexdigest()[:12]
        path = os.path.join(VERIF, "replays", "%s-%s.json" % (prop_id, h))
        json.dump(rec, open(path, "w"), indent=1, default=str)
        k = match_known(known, rec)
        if k:
            seen_known.setdefault(k["id"], (k, rec, path))
        else:
            real.append((rec, path))
    for kid, (k, rec, path) in seen_known.items():
        print("KNOWN-FINDING: %s" % k["text"].split(" ; ")[0])
    for rec, path, rp in nonrepro:
        inconclusive.append("%s: counterexample for %r did not reproduce natively (%s) -- encoding or stub is wrong; see %s"
                            % (rec["case"], rec["label"], rp.get("status"), path))
    # a known finding that the check no longer sees is reported (the defect may have been repaired)
    for k in known:
        if k["id"] not in seen_known:
            print("note: known finding %s not observed in this run" % k["id"])

    wall = time.time() - t0
    if not a.no_evidence:
        write_evidence(prop_id, mod, tier, seed, results, tv, real, seen_known, inconclusive, wall)

    tot = dict(paths=sum(r.get("feasible_paths", 0) for r in results), queries=sum(r.get("queries", 0) for r in results),
               checks=sum(r.get("checks", 0) for r in results), cases=len(results))
    print("%s tier=%s cases=%d paths=%d queries=%d assertions=%d vectors=%d wall=%.1fs" % (
        prop_id, tier, tot["cases"], tot["paths"], tot["queries"], tot["checks"], tv, wall))
    slow = sorted(results, key=lambda r: -r.get("wall", 0))[:4]
    print("  slowest cases: " + ", ".join("%s %.0fs" % (r.get("case"), r.get("wall", 0)) for r in slow))
    if real:
        for rec, path in real:
            print("  violated: case=%s assertion=%r witness=%s" % (rec["case"], rec["label"],
                                                                  json.dumps(rec["witness"])[:300]))
        for rec, path in real:
            print("VIOLATION property=%s replay=%s" % (prop_id, path))
        return 1
    if inconclusive:
        for m in inconclusive[:20]:
            print("INCONCLUSIVE: " + m)
        return 2
    print("HOLDS property=%s (within the stated bounds)" % prop_id)
    return 0


VECTOR_VIOLATIONS = []


def validate_vectors(prop_id, mod, jobs):
    """vectors() yields (fn, params, witness): run natively, and symbolically with pinned inputs"""
    vecs = list(mod.vectors())
    errs = []
    n = 0
    if not vecs:
        return 0, errs
    # native
    rec = dict(batch=[dict(fn=f, params=p, witness=w) for f, p, w in vecs])
    p = subprocess.run([sys.executable, "-m", "sx.replay", prop_id, "--batch"], input=json.dumps(rec), text=True,
                       capture_output=True, cwd=VERIF, env=dict(os.environ, PYTHONPATH=VERIF), timeout=900)
    try:
        out = json.loads(p.stdout.strip().splitlines()[-1])
    except Exception:
        return 0, ["translator validation: native batch failed: " + (p.stdout + p.stderr)[-800:]]
    for (f, prm, w), r in zip(vecs, out["results"]):
        if r["status"] == "reproduced":
            # the native harness fails on one of the repository's own vectors: a concrete,
            # already replayed counterexample
            VECTOR_VIOLATIONS.append(dict(case="vector:" + f, fn=f, params=prm, label=(r.get("failed") or ["?"])[0],
                                          witness=w, replay_result=r))
        elif r["status"] != "passed":
            errs.append("translator validation: native harness %s%s on repository vector %s -> %s %s" % (
                f, prm, json.dumps(w)[:120], r["status"], r.get("failed")))
    # symbolic with pinned inputs
    ctx = mp.get_context("spawn")
    with cf.ProcessPoolExecutor(max_workers=min(jobs, len(vecs)), mp_context=ctx, initializer=_worker_init) as ex:
        futs = [ex.submit(run_case, prop_id, dict(name="vec%d" % i, fn=f, params=prm, max_paths=50), w)
                for i, (f, prm, w) in enumerate(vecs)]
        for (f, prm, w), fu in zip(vecs, futs):
            r = fu.result()
            if any(v["witness"] == w and v["fn"] == f for v in VECTOR_VIOLATIONS):
                continue
            if r.get("error") or r.get("violations") or r.get("feasible_paths", 0) < 1:
                errs.append("translator validation: engine on pinned vector %s%s %s -> %s" % (
                    f, prm, json.dumps(w)[:120], r.get("error") or r.get("violations") or "no feasible path"))
            else:
                n += 1
    return n, errs


def write_evidence(prop_id, mod, tier, seed, results, tv, real, seen_known, inconclusive, wall):
    os.makedirs(os.path.join(VERIF, "evidence"), exist_ok=True)
    srcs = {}
    for r in results:
        for k, v in (r.get("sources") or {}).items():
            srcs[k] = v
    samples = []
    for r in sorted(results, key=lambda r: r.get("case", ""))[:6]:
        samples.append(dict(case=r.get("case"), params=r.get("params"), feasible_paths=r.get("feasible_paths"),
                            solver_queries=r.get("queries"), assertions=r.get("labels"),
                            path_outcomes=r.get("returns"), paths=r.get("path_samples")))
    for rec, path in real[:3]:
        samples.append(dict(violation=rec["label"], case=rec["case"], witness=rec["witness"], replay=path))
    states = sum(r.get("feasible_paths", 0) for r in results)
    trans = sum(r.get("decisions", 0) for r in results) + sum(r.get("checks", 0) for r in results)
    ev = dict(
        property_id=prop_id, tier=tier, seed=seed, level="model_checking",
        coverage=dict(
            states=max(states, 0), transitions=max(trans, 0), traces_validated_against_impl=tv,
            samples=samples or [dict(note="no case ran")],
            exhaustive=not inconclusive and not any(r.get("limit") for r in results),
            explanation="states = feasible execution paths of the real (AST-instrumented) functions explored "
                        "symbolically; transitions = branch decisions + property assertions discharged by z3; "
                        "every assertion is a for-all query over the symbolic inputs of its path.",
            cases=len(results), paths_total=sum(r.get("paths", 0) for r in results),
            queries=sum(r.get("queries", 0) for r in results),
            assertions_discharged=sum(r.get("checks", 0) for r in results),
            solver_time_s=round(sum(r.get("solver_time", 0) for r in results), 2),
            functions_encoded=getattr(mod, "FUNCTIONS", []),
            sources_encoded={k: dict(path=v[0], sha256_16=v[1], lines=v[2]) for k, v in sorted(srcs.items())},
            bounds=getattr(mod, "BOUNDS", {}).get(tier, getattr(mod, "BOUNDS", {})),
            stubs=getattr(mod, "STUBS", []),
            outside_claim=getattr(mod, "OUTSIDE", []),
            known_findings_seen=sorted(seen_known),
            inconclusive=inconclusive[:20],
            solver="z3 %s" % _z3v(),
        ),
        assumptions=getattr(mod, "ASSUMPTIONS", []),
        wall_s=round(wall, 2),
        violations=len(real),
    )
    json.dump(ev, open(os.path.join(VERIF, "evidence", prop_id + ".json"), "w"), indent=1, default=str)


def _z3v():
    try:
        import z3
        return z3.get_version_string()
    except Exception:
        return "?"


if __name__ == "__main__":
    sys.exit(main())
