#!/usr/bin/env python3
"""regenerates MANIFEST.json from the property modules present under props/ (run by hand)"""
import json, os, importlib, sys
V = os.path.dirname(os.path.abspath(__file__))
sys.path.insert(0, V)
props = [json.loads(l) for l in open(os.path.join(V, "properties.jsonl"))]
NA = json.load(open(os.path.join(V, "not_applicable.json"))) if os.path.exists(os.path.join(V, "not_applicable.json")) else {}
checks, na = [], []
for p in props:
    pid = p["id"]
    if os.path.exists(os.path.join(V, "props", pid + ".py")) and pid not in NA:
        src = open(os.path.join(V, "props", pid + ".py")).read()
        ns = {}
        # read the declarative constants without importing z3
        import ast
        tree = ast.parse(src)
        for node in tree.body:
            if isinstance(node, ast.Assign) and len(node.targets) == 1 and isinstance(node.targets[0], ast.Name) \
                    and node.targets[0].id in ("LEVEL_TEXT", "LEVEL_NOTE", "TECHNIQUE", "DESIGN_REF"):
                ns[node.targets[0].id] = ast.literal_eval(node.value)
        checks.append(dict(
            property_id=pid,
            quick_cmd="bin/check %s --tier quick" % pid,
            thorough_cmd="bin/check %s --tier thorough" % pid,
            evidence_file="evidence/%s.json" % pid,
            replay_cmd_template="bin/check %s --replay {path}" % pid,
            engine="sx",
            level_claimed=dict(category="model_checking", text=ns.get("LEVEL_TEXT", ""), design_ref=ns.get("DESIGN_REF", "DESIGN.md section 5 " + pid)),
            level_note=ns.get("LEVEL_NOTE", ""),
            technique=ns.get("TECHNIQUE", "symbolic execution of the real Python source (AST-instrumented import, z3 bit-vector/integer terms), per-path SMT queries; bounded model checking"),
        ))
    else:
        na.append(dict(property_id=pid, reason=NA.get(pid, "check not built yet in this round; see DESIGN.md section 5 " + pid)))
m = dict(
    version=1,
    setup_cmd="bin/setup",
    hooks=dict(guard="BTC_HD_WALLET_VERIF", enable="none needed: instrumentation happens at import time outside /repo (sx/instrument.py); the guard is reserved and unused",
               baseline_off_cmd="cd /repo && /venv/bin/python -m pytest -ra -q -p no:cacheprovider --timeout=900 --continue-on-collection-errors",
               source_commits=[], add_only=True),
    engines=[dict(name="sx", path="sx/", serves_properties=[c["property_id"] for c in checks],
                  kind_free_text="own symbolic executor for the Python subset of the repository: AST-instrumented import of /repo's current source, operator-overloaded z3 values (signed bit-vectors with interval tracking, mathematical integers with definitional variables), depth-first path replay, uninterpreted-function models for hashes and an isomorphic group model for secp256k1; every witness is replayed natively before it is reported")],
    checks=checks,
    not_applicable=na,
    notes="Exit codes: 0 holds within the stated bounds; 1 VIOLATION (witness replayed against the uninstrumented code); 2 inconclusive or machinery error (never success). Known findings: known_findings.txt.",
)
json.dump(m, open(os.path.join(V, "MANIFEST.json"), "w"), indent=1)
print("checks:", [c["property_id"] for c in checks], "na:", len(na))
