"""Reference ("spec") functions shared by several property harnesses.  Written from the BIPs, never
calling repository code; every function works on native values (replay) and on engine values
(exploration): E.H supplies the hash / group oracles of the current mode."""
from sx.instrument import sx_int_from_bytes as ifb
from sx.harness import Raised

N = 0xFFFFFFFFFFFFFFFFFFFFFFFFFFFFFFFEBAAEDCE6AF48A03BBFD25E8CD0364141
HARD = 2 ** 31

XPRV = {"main": 0x0488ADE4, "test": 0x04358394}
XPUB = {"main": 0x0488B21E, "test": 0x043587CF}
# SLIP-132: (purpose, network, kind) -> version
SLIP132 = {
    (44, False, "pub"): 0x0488B21E, (44, False, "prv"): 0x0488ADE4,
    (49, False, "pub"): 0x049D7CB2, (49, False, "prv"): 0x049D7878,
    (84, False, "pub"): 0x04B24746, (84, False, "prv"): 0x04B2430C,
    (44, True, "pub"): 0x043587CF, (44, True, "prv"): 0x04358394,
    (49, True, "pub"): 0x044A5262, (49, True, "prv"): 0x044A4E28,
    (84, True, "pub"): 0x045F1CF6, (84, True, "prv"): 0x045F18BC,
}


def ser(x, n):
    return x.to_bytes(n, "big")


def ckd_priv(E, k, c, i):
    """BIP32 CKDpriv on (k: int in [1,n-1], c: 32 bytes, i: int) ->
    ('invalid', reason) | (child k as int, child chain code)"""
    if i >= HARD:
        data = b"\x00" + ser(k, 32) + ser(i, 4)
    else:
        data = E.H.sec(k) + ser(i, 4)
    I = E.H.hmac512(c, data)
    IL, IR = ifb(I[:32], "big"), I[32:]
    if IL >= N:
        return "invalid", "IL >= n"
    ki = (IL + k) % N
    if ki == 0:
        return "invalid", "ki == 0"
    return ki, IR


def ckd_pub_dlog(E, k, c, i):
    """CKDpub expressed through the discrete log k of the parent point (reference side only):
    ('invalid', reason) | (child dlog, chain code)"""
    data = E.H.sec(k) + ser(i, 4)
    I = E.H.hmac512(c, data)
    IL, IR = ifb(I[:32], "big"), I[32:]
    if IL >= N:
        return "invalid", "IL >= n"
    ki = (IL + k) % N
    if ki == 0:
        return "invalid", "infinity"
    return ki, IR


def fingerprint(E, k):
    return E.H.hash160(E.H.sec(k))[:4]


def xkey_payload(version, depth, fp, index, c, keydata):
    return ser(version, 4) + ser(depth, 1) + fp + ser(index, 4) + c + keydata


def sym_scalar(E, name="k"):
    """a secret scalar in [1, n-1] as (int, 32 bytes)"""
    kb = E.bytes(name, 32)
    k = ifb(kb, "big")
    E.assume((k >= 1) & (k < N) if not isinstance(k >= 1, bool) or not isinstance(k < N, bool) else (1 <= k < N))
    return k, kb


# first character / length of Base58Check strings by (first payload byte, payload length); each row
# is a lemma proved in C09 (WIF) / C07 (extended keys) as an integer-arithmetic query over all
# payload tails and checksums
FIRST_CHAR = {(b"\x80", 34): ("KL", 52), (b"\x80", 33): ("5", 51), (b"\xef", 34): ("c", 52), (b"\xef", 33): ("9", 51),
              (b"\x05", 21): ("3", 34), (b"\x6f", 21): ("mn", 34), (b"\xc4", 21): ("2", 35), (b"\x00", 21): ("1", None)}
for (_p, _t, _k), _v in SLIP132.items():
    FIRST_CHAR[(_v.to_bytes(4, "big"), 78)] = ({44: "xt", 49: "yu", 84: "zv"}[_p][1 if _t else 0], 111)


def b58_lemma(E, prefix, plen):
    """integer lemma behind a FIRST_CHAR row: for every payload tail and every 4-byte checksum the Base58 string of
    prefix || tail || checksum has the listed first character(s) and length"""
    chars, m = FIRST_CHAR[(prefix, plen)]
    total = plen + 4
    rest = E.int("rest", 0, 256 ** (total - len(prefix)) - 1)
    V = int.from_bytes(prefix, "big") * 256 ** (total - len(prefix)) + rest
    if m is None:
        # leading zero byte: Base58 maps it to a leading '1' by the leading-zero rule (C10)
        E.check(V < 256 ** (total - 1), "lemma: payload starting with 00 has a leading zero byte, hence a leading '1'")
        return
    lo = min(_ALPHA.index(c) for c in chars)
    hi = max(_ALPHA.index(c) for c in chars)
    E.check(V >= lo * 58 ** (m - 1), "lemma: leading Base58 digit is at least the first listed character")
    E.check(V < (hi + 1) * 58 ** (m - 1), "lemma: leading Base58 digit is at most the last listed character; length is m")


class B58C:
    """what the Base58Check boundary received (summary used by harnesses of other properties)"""
    _sx_strlike = True

    def __init__(self, payload):
        self.payload = payload

    def _row(self):
        from sx.core import Unsupported
        n = len(self.payload)
        k = 4 if n == 78 else 1
        pre = []
        for x in list(self.payload)[:k]:
            if not isinstance(x, int):
                raise Unsupported("first character of a Base58Check string with symbolic version byte(s)")
            pre.append(x)
        row = FIRST_CHAR.get((bytes(pre), n))
        if row is None:
            raise Unsupported("no first-character lemma for payload %s/%d" % (bytes(pre).hex(), n))
        return row

    def __getitem__(self, i):
        if i != 0:
            from sx.core import Unsupported
            raise Unsupported("character %r of a Base58Check summary" % (i,))
        alpha, _ = self._row()
        if len(alpha) == 1:
            return alpha
        from sx import core
        from sx.values import SxChar, SxInt
        import z3
        v = core.CTX.newvar("b58first", z3.IntSort())
        core.CTX.add(v >= 0, v < len(alpha))
        return SxChar(alpha, SxInt(v, 0, len(alpha) - 1))

    def __len__(self):
        n = self._row()[1]
        if n is None:
            from sx.core import Unsupported
            raise Unsupported("length of a Base58Check string with leading zero bytes")
        return n

    def __eq__(self, o):
        return isinstance(o, B58C) and (self.payload == o.payload)
    __hash__ = None


def install_b58c_summary(R):
    """replace encode_base58_checksum by a recording summary (contract: injective encoding of the
    payload; established for payloads up to the C10 bound and by the length/first-character lemmas)"""
    from sx import instrument
    instrument.register(R.helper.encode_base58_checksum, lambda data: B58C(data))

    def dec(s):
        if isinstance(s, B58C):
            return s.payload
        raise ValueError("bad address")
    instrument.register(R.helper.decode_base58_checksum, dec)


def install_ripemd_uf(R):
    from sx import instrument, env
    instrument.register(R.ripemd.ripemd160, env.ripemd160_uf)


def repo_modules(R):
    import sys
    return [m for n, m in sys.modules.items() if n.split(".")[0] == "btc_hd_wallet" and m is not None]


def setup_bip32_sym(R, b58=True):
    from sx import env
    R.bip32, R.keys, R.helper, R.ripemd   # import
    env.install_group_model(repo_modules(R))
    install_ripemd_uf(R)
    if b58:
        install_b58c_summary(R)


def b58_payload(E, R, s):
    """payload of a Base58Check string produced by the code under test (summary object when the
    summary is installed, real decoding natively)"""
    if isinstance(s, B58C):
        return s.payload
    import hashlib
    raw = _b58decode(s)
    p, c = raw[:-4], raw[-4:]
    assert hashlib.sha256(hashlib.sha256(p).digest()).digest()[:4] == c, "bad checksum in produced string"
    return p


_ALPHA = "123456789ABCDEFGHJKLMNPQRSTUVWXYZabcdefghijkmnopqrstuvwxyz"


def _b58decode(s):
    n = 0
    for ch in s:
        n = n * 58 + _ALPHA.index(ch)
    z = len(s) - len(s.lstrip("1"))
    body = n.to_bytes((n.bit_length() + 7) // 8, "big") if n else b""
    return b"\x00" * z + body


def b58check_encode(payload):
    import hashlib
    raw = payload + hashlib.sha256(hashlib.sha256(payload).digest()).digest()[:4]
    n = int.from_bytes(raw, "big")
    out = ""
    while n:
        n, r = divmod(n, 58)
        out = _ALPHA[r] + out
    z = len(raw) - len(raw.lstrip(b"\x00"))
    return "1" * z + out
