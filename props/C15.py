"""C15 -- paranoia mode output contains no secret and leaves public data unchanged."""
from sx.runner import Case
from sx.harness import Raised
from props import common as cm, h_wallet as hw

ID = "C15"
FUNCTIONS = ["btc_hd_wallet.__main__.paranoia_mode", "btc_hd_wallet.__main__.main", "btc_hd_wallet.paper_wallet.PaperWallet.generate",
             "btc_hd_wallet.paper_wallet.PaperWallet.group", "btc_hd_wallet.paper_wallet.PaperWallet.pprint",
             "btc_hd_wallet.paper_wallet.PaperWallet.export_wallet", "btc_hd_wallet.paper_wallet.PaperWallet.json",
             "btc_hd_wallet.paper_wallet.PaperWallet.bip85_data", "btc_hd_wallet.paper_wallet.PaperWallet.master_data"]
BOUNDS = {"values": "master key, account, interval start free; interval length 0..2 (quick) / 0..4 (thorough); both networks; "
                    "every leaf at every nesting depth of the filtered mapping is classified by its term",
          "emission": "pprint and export_wallet of the filtered mapping, including the empty interval"}
BOUNDS_ADDED = '23+ end-to-end runs with --paranoia anywhere in the argument vector: independent projection (nothing altered or invented, every public string kept), leaf-level leak check, short and blank-padded passphrases, targets that cannot be opened'
BOUNDS["histories, lifetimes, injected faults, boundary vectors"] = BOUNDS_ADDED
STUBS = ["as C06 (ckd contract, Base58Check summary, opaque text, MNEM summary, json.dumps recorder)",
         "sys.stdout.write and open() -> recording stubs"]
ASSUMPTIONS = ["a leaf that cannot be classified as public (path text, address, SEC hex, extended public key) counts as secret"]
OUTSIDE = ["the json module"]
LEVEL_TEXT = ("Symbolic execution of the real paranoia_mode on the real generate() output: every leaf of the filtered structure "
              "is classified by its term (a new or moved secret is caught wherever it sits), the filtered structure is shown to be "
              "exactly the projection of the unfiltered one onto public leaves, and what pprint/export emit is that filtered mapping.")
TECHNIQUE = ("symbolic execution of the real Python source (AST-instrumented import, z3 terms), per-path SMT queries; bounded model "
             "checking; 42 end-to-end runs of the real command with --paranoia (concrete, validating the CLI wiring)")
LEVEL_NOTE = "Trusted: z3, classification by term structure under the summaries of C06."
PUBLIC = ("path", "address", "sec", "xpub")


def setup_sym(R):
    hw.setup_wallet_sym(R)


def _gen(E, R, testnet, ln):
    w, k, c = hw.mk_wallet(E, R, testnet)
    account = E.bv("account", 31)
    start, end = hw.interval(E, ln)
    data = E.run(w.generate, account, (start, end))
    return w, data


def check_filtered(E, R, data, filt, prefix=""):
    if not isinstance(filt, dict):
        E.fail(prefix + "paranoia_mode returns a mapping")
        return
    for path, leaf in hw.leaves(filt):
        cls, net = hw.classify(E, R, leaf)
        E.check(cls in PUBLIC, prefix + "every leaf of the filtered output is public data (path, address, SEC key, extended public key)",
                extra={"leaf_position": list(map(str, path)), "class": cls})
    # projection: same public leaves in the same positions
    for name in ("BIP44", "BIP49", "BIP84"):
        if name not in filt or name not in data:
            E.fail(prefix + "filtered output keeps the BIP44/49/84 sections")
            continue
        f, d = filt[name], data[name]
        ok = isinstance(f, dict) and set(f.keys()) == {"account_extended_keys", "groups"} and \
            isinstance(f["account_extended_keys"], dict) and set(f["account_extended_keys"].keys()) == {"path", "pub"}
        E.check(ok, prefix + "filtered section shape: account path+pub, groups")
        if not ok:
            continue
        E.check_eq([f["account_extended_keys"]["path"], f["account_extended_keys"]["pub"]],
                   [d["account_extended_keys"]["path"], d["account_extended_keys"]["pub"]], prefix + "account path and xpub unchanged")
        E.check(len(f["groups"]) == len(d["groups"]), prefix + "same number of rows")
        for rf, rd in zip(f["groups"], d["groups"]):
            E.check(len(rf) == 3, prefix + "filtered rows have path, address, public key")
            E.check_eq(list(rf[:3]), list(rd[:3]), prefix + "row path, address and public key unchanged")
    E.check(set(filt.keys()) <= {"BIP44", "BIP49", "BIP84"}, prefix + "no section beyond BIP44/49/84 survives")


def filter_(E, R, testnet, ln):
    w, data = _gen(E, R, testnet, ln)
    if isinstance(data, Raised):
        return "invalid-bip85"
    filt = E.run(R.main.paranoia_mode, data)
    if isinstance(filt, Raised):
        E.fail("paranoia_mode works on generate() output")
        return "raised"
    check_filtered(E, R, data, filt)
    # the unfiltered output does contain the secrets (guards against a vacuous classification)
    classes = [hw.classify(E, R, leaf)[0] for _, leaf in hw.leaves(data)]
    E.check(any(c.startswith("secret:") for c in classes), "classifier recognises secrets in the unfiltered output")
    return "ok"


class _Sink:
    def __init__(self):
        self.writes = []

    def write(self, x):
        self.writes.append(x)
        return 0

    def __enter__(self):
        return self

    def __exit__(self, *a):
        return False

    def flush(self):
        pass


def emit(E, R, testnet, ln, channel):
    """what pprint / export_wallet hand to the output channel for the filtered mapping"""
    import sys, json, os, builtins
    w, data = _gen(E, R, testnet, ln)
    if isinstance(data, Raised):
        return "invalid-bip85"
    filt = E.run(R.main.paranoia_mode, data)
    if isinstance(filt, Raised):
        E.fail("paranoia_mode works on generate() output")
        return "raised"
    sink = _Sink()
    if E.symbolic:
        from sx import instrument
        instrument.register(builtins.open, lambda *a, **k: sink)
        old = sys.stdout
        sys.stdout = sink
        try:
            r = E.run(w.pprint, filt) if channel == "stdout" else E.run(w.export_wallet, "out.json", 4, filt)
        finally:
            sys.stdout = old
            instrument.unregister(builtins.open)
        if isinstance(r, Raised):
            E.fail("emission works")
            return "raised"
        dumps = [x for x in sink.writes if isinstance(x, hw.JsonDump)]
        E.check(len(dumps) == 1 and all(isinstance(x, hw.JsonDump) or x == os.linesep for x in sink.writes),
                "exactly one JSON document is emitted")
        for d in dumps:
            E.check(d.obj is filt, "what is emitted is the filtered mapping itself")
            check_filtered(E, R, data, d.obj, prefix="emitted: ")
    else:
        import io, tempfile
        if channel == "stdout":
            old = sys.stdout
            sys.stdout = buf = io.StringIO()
            try:
                w.pprint(filt)
            finally:
                sys.stdout = old
            text = buf.getvalue()
        else:
            with tempfile.TemporaryDirectory() as td:
                p = os.path.join(td, "out.json")
                w.export_wallet(p, 4, filt)
                text = open(p).read()
        obj = json.loads(text)
        E.check(obj == json.loads(json.dumps(filt)), "what is emitted is the filtered mapping itself")
        check_filtered(E, R, json.loads(json.dumps(data)), obj, prefix="emitted: ")
    return "ok"


def cli(E, R, command, testnet, to_file, ln):
    """the real main() with --paranoia: what reaches stdout / the file is the filtered mapping of the requested
    account and interval, and contains no secret"""
    from props import C20
    return C20.main_wiring(E, R, command, testnet, True, to_file, ln)


def cli_vector(E, R, **kw):
    """end-to-end runs of `python -m btc_hd_wallet` with --paranoia somewhere in the argument vector (C20's vectors)"""
    from props import C20
    return C20.cli_vector(E, R, **kw)


def cases(tier):
    cs = []
    for command, t, f, ln in (("from-mnemonic", False, True, 1), ("from-bip39-seed", True, False, 1), ("new", False, False, 0),
                              ("from-entropy-hex", True, True, 0), ("from-master-xprv", False, True, 1)):
        cs.append(Case("cli[%s,testnet=%s,file=%s,len=%d]" % (command, t, f, ln), "cli", dict(command=command, testnet=t, to_file=f, ln=ln),
                       weight=12, max_paths=5000,
                       need=("emitted JSON equals the API result for the same wallet, account and interval (filtered iff --paranoia)",)))
    top = 2 if tier == "quick" else 4
    for t in (False, True):
        for ln in range(0, top + 1):
            cs.append(Case("filter[testnet=%s,len=%d]" % (t, ln), "filter_", dict(testnet=t, ln=ln), weight=10 * (ln + 1), max_paths=5000,
                           need=("every leaf of the filtered output is public data (path, address, SEC key, extended public key)",
                                 "classifier recognises secrets in the unfiltered output")))
        for ln in (0, 1):
            for ch in ("stdout", "file"):
                cs.append(Case("emit[testnet=%s,len=%d,%s]" % (t, ln, ch), "emit", dict(testnet=t, ln=ln, channel=ch), weight=8,
                               max_paths=5000, need=("what is emitted is the filtered mapping itself",)))
    return cs


def vectors():
    k = "e8f32e723decf4051aefac8e2c93c9c5b214313817cdb01a1494b917c8436b35"
    c = "873dff81c02f525623fd1fe5167eac3a55a049de3d314bb42ee227ffed37d508"
    return [("filter_", dict(testnet=False, ln=2), {"k": k, "c": c, "account": 0, "start": 0}),
            ("filter_", dict(testnet=True, ln=1), {"k": k, "c": c, "account": 3, "start": 5}),
            ("emit", dict(testnet=True, ln=0, channel="stdout"), {"k": k, "c": c, "account": 3, "start": 5}),
            ("emit", dict(testnet=False, ln=1, channel="file"), {"k": k, "c": c, "account": 3, "start": 5})] + _cli_vectors()


def _cli_vectors():
    from props import C20
    return [(fn, params, w) for (fn, params, w) in C20.vectors() if fn == "cli_vector" and "--paranoia" in params["argv"]]
