"""C14 -- watch-only wallets reproduce all public data and can never yield private data."""
from sx.runner import Case
from sx.harness import Raised
from sx.instrument import sx_str
from props import common as cm, h_wallet as hw
from props.common import HARD, SLIP132, ser
from props.C05 import KINDS, check_address

ID = "C14"
FUNCTIONS = ["btc_hd_wallet.base_wallet.BaseWallet.__init__", "btc_hd_wallet.base_wallet.BaseWallet.watch_only",
             "btc_hd_wallet.base_wallet.BaseWallet.from_extended_key", "btc_hd_wallet.base_wallet.BaseWallet.node_extended_private_key",
             "btc_hd_wallet.base_wallet.BaseWallet.node_extended_keys", "btc_hd_wallet.base_wallet.BaseWallet.node_extended_public_key",
             "btc_hd_wallet.base_wallet.BaseWallet.by_path", "btc_hd_wallet.base_wallet.BaseWallet.*_address",
             "btc_hd_wallet.paper_wallet.PaperWallet.group", "btc_hd_wallet.paper_wallet.PaperWallet.generate",
             "btc_hd_wallet.bip32.PubKeyNode.parse", "btc_hd_wallet.bip32.PubKeyNode._parse", "btc_hd_wallet.bip32.PubKeyNode.ckd (real code in the step case)"]
BOUNDS = {"export node": "free key, chain code, depth 0..255, child number, parent fingerprint; each of the six public version prefixes",
          "sub-paths": "non-hardened free indexes, length 0..3 (quick) / 0..5 (thorough); a hardened index at every position for the refusal"}
BOUNDS_ADDED = 'leaf derivation by the real ckd on both sides (L = 1..2); derived node kept alone (watch-only wallet and ancestors garbage-collected)'
BOUNDS["histories, lifetimes, injected faults, boundary vectors"] = BOUNDS_ADDED
STUBS = ["child derivation -> contract summary (the agreement of the real public and private ckd is C02)", "Base58Check -> summary",
         "secp256k1 -> group model; hashes -> uninterpreted"]
ASSUMPTIONS = ["private material is not among the inputs of the watch-only side (it is built from the xpub string only)"]
OUTSIDE = []
LEVEL_TEXT = ("A watch-only wallet is built from nothing but the extended-public-key string of a fully symbolic node; for free "
              "non-hardened sub-paths the solver shows equal public keys, chain codes, metadata and all five address kinds, and that "
              "every private-data request ends in an error or an empty field.")
LEVEL_NOTE = "Trusted: z3, ckd contract (C01/C02), group model."
PUBV = [(p, t) for (p, t, kind) in sorted(SLIP132) if kind == "pub"]


def setup_sym(R):
    hw.setup_wallet_sym(R)


def _export(E, R, purpose, testnet, L=0):
    k, kb = cm.sym_scalar(E, "k")
    c = E.bytes("c", 32)
    depth = E.bv("depth", 8, hi=255 - L)        # nodes below depth 255 cannot be serialised by anyone
    idx = E.bv("index", 32)
    fp = E.bytes("fp", 4)
    if E.symbolic:
        import z3
        from sx.values import z3bool
        E.assume(z3.Implies(z3bool(depth == 0), z3.And(z3bool(idx == 0), fp.eq_expr(b"\x00" * 4))))
    else:
        E.assume(depth != 0 or (idx == 0 and fp == b"\x00" * 4))
    X = R.bip32.PrvKeyNode(key=kb, chain_code=c, index=idx, depth=depth, testnet=testnet, parent_fingerprint=fp)
    full = R.paper_wallet.PaperWallet(master=X, testnet=testnet)
    xpub = X.extended_public_key(SLIP132[(purpose, testnet, "pub")])
    watch = E.run(R.paper_wallet.PaperWallet.from_extended_key, xpub)
    return X, full, watch, dict(k=k, c=c, depth=depth, idx=idx, fp=fp)


def agree(E, R, purpose, testnet, L, use_by_path, real_leaf=False):
    """real_leaf: the last derivation on both sides runs the real ckd (all PRF outputs, so BIP32's invalid children
    exist): the watch-only side fails exactly when the full wallet does"""
    X, full, watch, p = _export(E, R, purpose, testnet, L)
    if isinstance(watch, Raised):
        E.fail("a wallet can be built from every extended public key")
        return "raised"
    E.check(watch.watch_only is True, "wallet built from an xpub reports itself watch-only")
    E.check(watch.bip85 is None, "watch-only wallet offers no BIP85 derivation")
    E.check(watch.testnet is testnet, "network from the version prefix")
    E.check(type(watch.master) is R.bip32.PubKeyNode, "watch-only master is a public node")
    idxs = [E.bv("i%d" % j, 31) for j in range(L)]
    if real_leaf and E.symbolic:
        hw.real_calls(prv={L}, pub={L})
    if use_by_path:
        s = "m"
        for i in idxs:
            s = s + "/" + sx_str(i)
        a = E.run(full.by_path, s)
        b = E.run(watch.by_path, s)
    else:
        a = E.run(full.master.derive_path, list(idxs))
        b = E.run(watch.master.derive_path, list(idxs))
    if real_leaf and E.symbolic:
        hw.real_calls()
    if isinstance(a, Raised) or isinstance(b, Raised):
        if real_leaf and isinstance(b, Raised) and not isinstance(a, Raised):
            return "public-IL0"        # IL = 0 corner of the ecdsa fallback on the public side (see C02)
        E.check(isinstance(a, Raised) == isinstance(b, Raised), "public derivation succeeds whenever private derivation does")
        return "raised-both"
    E.check(type(b) is R.bip32.PubKeyNode, "nodes of a watch-only wallet are public nodes")
    E.check_eq(b.key, a.public_key.sec(), "same public key below the export node")
    E.check_eq([b.chain_code, b.depth, b.index, b.testnet], [a.chain_code, a.depth, a.index, a.testnet], "same chain code, depth, child number, network")
    E.check_eq(b.parent_fingerprint, a.parent_fingerprint, "same parent fingerprint")
    E.check_eq(b.fingerprint(), a.fingerprint(), "same fingerprint")
    for kind in KINDS:
        aa = E.run(getattr(full, kind + "_address"), a)
        bb = E.run(getattr(watch, kind + "_address"), b)
        check_address(E, R, bb, kind, testnet, a.public_key.sec(), tag="watch-only ")
        if not isinstance(aa, Raised) and not isinstance(bb, Raised):
            same = E.eq(cm.b58_payload(E, R, aa), cm.b58_payload(E, R, bb)) if isinstance(aa, cm.B58C) or (not E.symbolic and aa[:2] not in ("bc", "tb")) \
                else E.eq(aa, bb)
            E.check(same, "watch-only address == full wallet's address (%s)" % kind)
    # private data requests
    r = E.run(watch.node_extended_private_key, b)
    E.check(isinstance(r, Raised), "watch-only wallet gives no extended private key (error)")
    d = E.run(watch.node_extended_keys, b)
    if isinstance(d, Raised):
        E.fail("node_extended_keys works on a watch-only wallet")
    else:
        E.check(d["prv"] is None, "node_extended_keys has an empty private field")
        E.check_eq(cm.b58_payload(E, R, d["pub"])[4:], cm.b58_payload(E, R, full.node_extended_keys(a)["pub"])[4:],
                   "extended public key of the node equals the full wallet's (fields after the version)")
    rows = E.run(watch.group, [b], watch.p2wpkh_address)
    if isinstance(rows, Raised):
        E.fail("group works on a watch-only wallet")
    else:
        E.check(len(rows) == 1 and len(rows[0]) == 4 and rows[0][3] is None, "group rows end in an empty WIF field")
        for _, leaf in hw.leaves(rows):
            cls, _n = hw.classify(E, R, leaf)
            E.check(not cls.startswith("secret"), "nothing a watch-only wallet emits is private-key material")
    pk = E.run(lambda: b.private_key)
    E.check(isinstance(pk, Raised), "public node has no private key")
    g = E.run(watch.generate)
    E.check(isinstance(g, Raised), "paper-wallet generation (hardened accounts, BIP85) is refused on a watch-only wallet")
    return "ok"


def leaf_alone(E, R, purpose, testnet, L):
    """the caller keeps only the derived node (the watch-only wallet object and the nodes above are temporaries, gone by the
    time the node is used): its extended public key still carries the right parent fingerprint and fields"""
    import gc
    X, full, watch, p = _export(E, R, purpose, testnet, L)
    if isinstance(watch, Raised):
        E.fail("a wallet can be built from every extended public key")
        return "raised"
    xpub = X.extended_public_key(SLIP132[(purpose, testnet, "pub")])
    idxs = [E.bv("i%d" % j, 31) for j in range(L)]
    s = "m"
    for i in idxs:
        s = s + "/" + sx_str(i)
    a = E.run(full.by_path, s)
    del watch
    b = E.run(lambda: R.paper_wallet.PaperWallet.from_extended_key(xpub).by_path(s))
    gc.collect()
    if isinstance(a, Raised) or isinstance(b, Raised):
        return "raised"
    ver = SLIP132[(44, testnet, "pub")]
    ea = E.run(a.extended_public_key, ver)
    eb = E.run(b.extended_public_key, ver)
    if isinstance(ea, Raised) or isinstance(eb, Raised):
        E.fail("node kept alone: extended public key equals the full wallet's")
        return "ser-raised"
    E.check_eq(cm.b58_payload(E, R, eb), cm.b58_payload(E, R, ea), "node kept alone: extended public key equals the full wallet's")
    E.check_eq(b.parent_fingerprint, a.parent_fingerprint, "node kept alone: parent fingerprint")
    return "ok"


def hardened(E, R, purpose, testnet, L, pos):
    X, full, watch, p = _export(E, R, purpose, testnet)
    if isinstance(watch, Raised):
        E.fail("a wallet can be built from every extended public key")
        return "raised"
    idxs = [E.bv("i%d" % j, 32, lo=HARD) if j == pos else E.bv("i%d" % j, 31) for j in range(L)]
    r = E.run(watch.master.derive_path, list(idxs))
    E.check(isinstance(r, Raised), "hardened derivation is refused on a watch-only wallet")
    s = "m"
    for i in idxs:
        s = s + "/" + (sx_str(i - HARD) + "'" if ((i >= HARD) if isinstance(i, int) else bool(i >= HARD)) else sx_str(i))
    r2 = E.run(watch.by_path, s)
    E.check(isinstance(r2, Raised), "hardened path lookup is refused on a watch-only wallet")
    return "refused"


def bulk(E, R, purpose, testnet):
    """generate_children on a watch-only wallet's node (real public ckd): refused as soon as the interval reaches 2^31"""
    from props import C13
    X, full, watch, p = _export(E, R, purpose, testnet, 1)
    if isinstance(watch, Raised):
        E.fail("a wallet can be built from every extended public key")
        return "raised"
    C13._real_ckd(E, R, True)
    try:
        a = E.bv("a", 32, hi=2 ** 32 - 3)
        r = E.run(watch.master.generate_children, (a, a + 2))
        if (bool(a + 1 >= HARD) if E.symbolic else a + 1 >= HARD):
            E.check(isinstance(r, Raised), "bulk child generation on a watch-only wallet refuses hardened indexes")
            return "refused"
        if isinstance(r, Raised):
            return "raised"
        for j, ch in enumerate(r):
            E.check(type(ch) is R.bip32.PubKeyNode, "bulk-generated nodes of a watch-only wallet are public nodes")
            ref = cm.ckd_priv(E, p["k"], p["c"], a + j)
            if ref[0] != "invalid":
                E.check_eq([ch.key, ch.chain_code], [E.H.sec(ref[0]), ref[1]], "bulk-generated public child equals the private derivation's public part")
        return "ok"
    finally:
        C13._real_ckd(E, R, False)


def cases(tier):
    cs = []
    for (purpose, testnet) in ((84, False), (44, True)):
        cs.append(Case("bulk[%d,%s]" % (purpose, testnet), "bulk", dict(purpose=purpose, testnet=testnet), weight=20, max_paths=5000,
                       need=("bulk child generation on a watch-only wallet refuses hardened indexes",)))
    top = 3 if tier == "quick" else 5
    for (purpose, testnet) in PUBV:
        for L in range(0, top + 1):
            if tier == "quick" and L == 3 and (purpose, testnet) not in ((84, False), (44, True)):
                continue
            for bp in (False, True):
                if bp and L == 0:
                    continue
                cs.append(Case("agree[%d,%s,L=%d,by_path=%s]" % (purpose, "test" if testnet else "main", L, bp), "agree",
                               dict(purpose=purpose, testnet=testnet, L=L, use_by_path=bp), weight=5 * (L + 1), max_paths=5000,
                               need=("same public key below the export node", "watch-only wallet gives no extended private key (error)")))
        if purpose == (49 if testnet else 84):
            for L in (1, 2):
                cs.append(Case("leaf_alone[%d,%s,L=%d]" % (purpose, "test" if testnet else "main", L), "leaf_alone",
                               dict(purpose=purpose, testnet=testnet, L=L), weight=8, max_paths=5000,
                               need=("node kept alone: extended public key equals the full wallet's",)))
        if purpose == (84 if testnet else 44):
            for (L, bp) in ((1, False), (2, True)):
                cs.append(Case("agree_real_leaf[%d,%s,L=%d,by_path=%s]" % (purpose, "test" if testnet else "main", L, bp), "agree",
                               dict(purpose=purpose, testnet=testnet, L=L, use_by_path=bp, real_leaf=True), weight=12, max_paths=5000,
                               need=("public derivation succeeds whenever private derivation does", "same public key below the export node")))
        for L in (1, 2, 3):
            for pos in range(L):
                cs.append(Case("hardened[%d,%s,L=%d@%d]" % (purpose, "test" if testnet else "main", L, pos), "hardened",
                               dict(purpose=purpose, testnet=testnet, L=L, pos=pos), need=("hardened derivation is refused on a watch-only wallet",)))
    return cs


def vectors():
    k = "e8f32e723decf4051aefac8e2c93c9c5b214313817cdb01a1494b917c8436b35"
    c = "873dff81c02f525623fd1fe5167eac3a55a049de3d314bb42ee227ffed37d508"
    w = {"k": k, "c": c, "depth": 4, "fp": "01020304", "index": 0, "i0": 0, "i1": 19}
    return [("agree", dict(purpose=84, testnet=False, L=2, use_by_path=True), w),
            ("agree", dict(purpose=49, testnet=True, L=1, use_by_path=False), dict(w, depth=200)),
            ("hardened", dict(purpose=44, testnet=False, L=2, pos=1), dict(w, i1=HARD + 3))]
