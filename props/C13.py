"""C13 -- derivation is a pure function of root key and path, whatever happened before.

The quantifier is over call histories.  Each case runs an ordered pair of operations with free arguments
on the *same* wallet / node objects and compares every returned value with a stateless recomputation from
the root (reference side); together with the frame check (root and pre-existing nodes unchanged, children
lists only appended to) this is the one-step argument for histories of any length.  Thread schedules: one
pre-emption between two derivations, the switch point being a solver variable (see interleave)."""
from sx.runner import Case
from sx.harness import Raised
from sx.instrument import sx_str, sx_int_from_bytes as ifb
from props import common as cm, h_wallet as hw
from props.common import N, HARD, ser, SLIP132
from props.C05 import check_address

ID = "C13"
FUNCTIONS = ["btc_hd_wallet.bip32.PubKeyNode.__init__", "btc_hd_wallet.bip32.PubKeyNode.ckd", "btc_hd_wallet.bip32.PrvKeyNode.ckd",
             "btc_hd_wallet.bip32.PubKeyNode.generate_children", "btc_hd_wallet.bip32.PubKeyNode.derive_path",
             "btc_hd_wallet.base_wallet.BaseWallet.address_generator", "btc_hd_wallet.base_wallet.BaseWallet.by_path",
             "btc_hd_wallet.base_wallet.BaseWallet.node_extended_keys", "btc_hd_wallet.base_wallet.BaseWallet.p2wpkh_address",
             "btc_hd_wallet.bip85.BIP85DeterministicEntropy.wif", "btc_hd_wallet.paper_wallet.PaperWallet.generate"]
BOUNDS = {"schedules": "two threads, ONE pre-emption: operation A (a derivation on one node) is suspended at a solver-chosen yield "
                       "point -- before any call made by repository code (quick) or before any statement or call (thorough) --, "
                       "operation B (a derivation on another node) runs to completion, A resumes, then both objects are used again "
                       "from one thread; private and public nodes, real ckd.  More than one pre-emption, switches inside a "
                       "statement's bytecode, and more than two threads are not explored.",
          "histories": "every ordered pair of operations out of {by_path, ckd, generate_children, address, node_extended_keys, "
                       "BIP85 WIF, derive_path with a re-used (mutated) list, address_generator with a skip} with free arguments on shared "
                       "objects; the real ckd on two parents that share a key but not a chain code (private and public)",
          }
STUBS = ["child derivation -> contract summary, except in the same-key cases which run the real ckd", "as C06 otherwise"]
ASSUMPTIONS = ["CPython's list.append is atomic (premise for the thread clause, not checked)",
               "purity + frame for every single step imply history-independence for sequences of any length (stated argument)"]
OUTSIDE = ["thread schedules with more than one pre-emption or with switches inside a single statement",
           "sequences longer than two operations as such (covered by the inductive argument)"]
LEVEL_TEXT = ("Every ordered pair of API operations with free arguments is executed on shared wallet/node objects; each result is "
              "compared by the solver with a stateless recomputation from the root, and the root and earlier nodes are shown unchanged. "
              "Thread schedules with one pre-emption between two operations (on two nodes, and on one node) are explored with the switch "
              "point as a solver variable; witnesses are replayed on two real threads.")
TECHNIQUE = ("symbolic execution of the real Python source (AST-instrumented import, z3 terms), per-path SMT queries; thread "
             "schedules: bounded model checking with the pre-emption point as a solver variable (one pre-emption, statement/call "
             "granularity), native replay on real threads")
LEVEL_NOTE = ("Trusted: z3, ckd contract.  Thread schedules: one pre-emption at statement/call granularity with the switch point a "
              "solver variable; witnesses are replayed on two real threads.")
OPS = ("by_path", "ckd", "children", "address", "xkeys", "bip85", "reuse", "generator")
# possible thread switches: before every call made by repository code (always) and, in the thorough tier, also before
# every statement of every repository function
YIELD_POINTS = {"quick": False, "thorough": True}
PREEMPT_REPLAY = {"max_points": 6000, "seconds": 900}


def setup_sym(R):
    hw.setup_wallet_sym(R)


def _child_fields(n):
    return [n.key if len(n.key) == 32 else n.key[1:], n.chain_code, n.depth, n.index]


def _ref_fields(E, k, c, idxs):
    kk, cc, _ = hw.derive(E, k, c, idxs)
    return [ser(kk, 32), cc, len(idxs), idxs[-1] if idxs else 0]


def run_op(E, R, w, k, c, op, tag, testnet):
    """run one operation with free arguments; assert its results against the stateless reference"""
    m = w.master
    lab = "%s result equals the stateless recomputation from the root" % op
    if op == "by_path":
        i0, i1 = E.bv(tag + "i0", 32), E.bv(tag + "i1", 32)
        s = hw.path_text(E, "m", [i0, i1])
        n = E.run(w.by_path, s)
        if isinstance(n, Raised):
            E.fail(op + " works")
            return
        E.check_eq(_child_fields(n), _ref_fields(E, k, c, [i0, i1]), lab)
        E.check_eq(E.run(n.__repr__) if E.symbolic else str(n), s, "by_path node prints its own path")
    elif op == "ckd":
        i = E.bv(tag + "i", 32)
        n = E.call(m.ckd, i)
        if isinstance(n, Raised):
            E.fail(op + " works")
            return
        E.check_eq(_child_fields(n), _ref_fields(E, k, c, [i]), lab)
    elif op == "children":
        a = E.bv(tag + "a", 31)
        ns = E.run(m.generate_children, (a, a + 2))
        if isinstance(ns, Raised):
            E.fail(op + " works")
            return
        E.check(len(ns) == 2, "generate_children yields one child per index")
        for j, n in enumerate(ns):
            E.check_eq(_child_fields(n), _ref_fields(E, k, c, [a + j]), lab)
    elif op == "address":
        i = E.bv(tag + "i", 32)
        n = E.call(m.ckd, i)
        if isinstance(n, Raised):
            E.fail(op + " works")
            return
        kk, cc, _ = hw.derive(E, k, c, [i])
        check_address(E, R, E.run(w.p2wpkh_address, n), "p2wpkh", testnet, E.H.sec(kk), tag="history: ")
        check_address(E, R, E.run(w.p2sh_p2wsh_address, n), "p2sh_p2wsh", testnet, E.H.sec(kk), tag="history: ")
    elif op == "xkeys":
        i = E.bv(tag + "i", 31)
        n = E.run(m.derive_path, [0, i])
        if isinstance(n, Raised):
            E.fail(op + " works")
            return
        d = E.run(w.node_extended_keys, n)
        if isinstance(d, Raised):
            E.fail(op + " works")
            return
        kk, cc, kp = hw.derive(E, k, c, [0, i])
        fp = cm.fingerprint(E, kp)
        E.check_eq(cm.b58_payload(E, R, d["pub"]), cm.xkey_payload(SLIP132[(44, testnet, "pub")], 2, fp, i, cc, E.H.sec(kk)), lab)
        E.check_eq(cm.b58_payload(E, R, d["prv"]), cm.xkey_payload(SLIP132[(44, testnet, "prv")], 2, fp, i, cc, b"\x00" + ser(kk, 32)), lab)
    elif op == "bip85":
        idx = E.bv(tag + "idx", 31)
        r = E.run(w.bip85.wif, idx)
        kk, cc, _ = hw.derive(E, k, c, [83696968 + HARD, 2 + HARD, idx + HARD])
        ent = E.H.hmac512(b"bip-entropy-from-k", ser(kk, 32))
        sec = ifb(ent[:32], "big")
        bad = (sec == 0) | (sec >= N) if E.symbolic else (sec == 0 or sec >= N)
        if bool(bad) if E.symbolic else bad:
            E.check(isinstance(r, Raised), "bip85 invalid secret raises (history)")
            return
        if isinstance(r, Raised):
            E.fail(op + " works")
            return
        E.check_eq(cm.b58_payload(E, R, r), b"\x80" + ent[:32] + b"\x01", lab)
    elif op == "reuse":
        i0, i1, i2 = E.bv(tag + "i0", 32), E.bv(tag + "i1", 32), E.bv(tag + "i2", 32)
        lst = [i0, i1]
        n1 = E.run(m.derive_path, lst)
        lst[1] = i2
        n2 = E.run(m.derive_path, lst)
        lst2 = [i0, i2]
        n3 = E.run(m.derive_path, lst2)
        if isinstance(n1, Raised) or isinstance(n2, Raised) or isinstance(n3, Raised):
            E.fail(op + " works")
            return
        E.check_eq(_child_fields(n1), _ref_fields(E, k, c, [i0, i1]), lab)
        E.check_eq(_child_fields(n2), _ref_fields(E, k, c, [i0, i2]), "derive_path with a re-used, modified list derives the list's current content")
        E.check_eq(_child_fields(n3), _ref_fields(E, k, c, [i0, i2]), lab)
        # concatenation: derive_path(a + b) == derive_path(a).derive_path(b)
        na = E.run(m.derive_path, [i0])
        nab = E.run(na.derive_path, [i2]) if not isinstance(na, Raised) else na
        if not isinstance(nab, Raised):
            E.check_eq(_child_fields(nab), _child_fields(n3), "deriving a concatenated path equals deriving its parts in sequence")
    elif op == "generator":
        skip = E.bv(tag + "skip", 3)
        g = w.address_generator(m)
        first = E.run(next, g)
        second = E.run(g.send, skip)
        third = E.run(next, g)
        if any(isinstance(x, Raised) for x in (first, second, third)):
            E.fail(op + " works")
            return
        step = E.ite(skip == 0, 1, skip)
        for got, idx in ((first, 0), (second, step), (third, step + 1)):
            kk, cc, _ = hw.derive(E, k, c, [idx])
            E.check_eq(got[0], hw.path_text(E, "m", [idx]), "address generator yields consecutive indexes (or skips ahead by the number sent)")
            check_address(E, R, got[1], "p2wpkh", testnet, E.H.sec(kk), tag="generator: ")


def pair(E, R, a, b, testnet):
    w, k, c = hw.mk_wallet(E, R, testnet)
    m = w.master
    root = [m.key, m.chain_code, m.depth, m.index, m.testnet]
    run_op(E, R, w, k, c, a, "a_", testnet)
    snapshot = [(n, list(_child_fields(n))) for n in m.children]
    nch = len(m.children)
    run_op(E, R, w, k, c, b, "b_", testnet)
    E.check_eq([m.key, m.chain_code, m.depth, m.index, m.testnet], root, "no request alters the root key")
    E.check(len(m.children) >= nch and all(x is y for x, (y, _) in zip(m.children, snapshot)), "children lists are only appended to")
    for n, f in snapshot:
        E.check_eq(_child_fields(n), f, "nodes derived earlier are unchanged")
    xprv = E.run(m.extended_private_key)
    if not isinstance(xprv, Raised):
        E.check_eq(cm.b58_payload(E, R, xprv)[-33:], b"\x00" + ser(k, 32), "root extended private key is the same before and after")
    return "ok"


def _real_ckd(E, R, on):
    """switch between the real ckd and its summary (symbolic mode only)"""
    if E.symbolic:
        from sx import instrument
        for cls in (R.bip32.PrvKeyNode, R.bip32.PubKeyNode):
            if on:
                instrument.unregister(cls.__dict__["ckd"])
        if not on:
            hw.install_ckd_summary(R)


def same_key(E, R, public):
    """real ckd: two parents with the same key but different chain codes, same index, one after the other"""
    _real_ckd(E, R, True)
    try:
        k, kb = cm.sym_scalar(E, "k")
        c1, c2 = E.bytes("c", 32), E.bytes("c2", 32)
        i = E.bv("index", 31) if public else E.bv("index", 32)
        if public:
            A = R.bip32.PubKeyNode(key=E.H.sec(k), chain_code=c1)
            B = R.bip32.PubKeyNode(key=E.H.sec(k), chain_code=c2)
        else:
            A = R.bip32.PrvKeyNode(key=kb, chain_code=c1)
            B = R.bip32.PrvKeyNode(key=kb, chain_code=c2)
        ra = E.run(A.ckd, i)
        rb = E.run(B.ckd, i)
        ra2 = E.run(A.ckd, i)
        for node, r, cc in ((A, ra, c1), (B, rb, c2), (A, ra2, c1)):
            ref = cm.ckd_priv(E, k, cc, i)
            if ref[0] == "invalid":
                continue
            if isinstance(r, Raised):
                if public:
                    continue      # IL = 0 corner of the ecdsa fallback (see C02)
                E.fail("derivation works whatever was derived before")
                continue
            exp_key = E.H.sec(ref[0]) if public else ser(ref[0], 32)
            E.check_eq([r.key, r.chain_code], [exp_key, ref[1]], "child depends on its own parent's key AND chain code, not on earlier derivations")
        return "ok"
    finally:
        _real_ckd(E, R, False)


def interleave(E, R, kind):
    """two threads, one pre-emption: operation A (on one node / wallet) is suspended at a solver-chosen point, operation
    B (on another node / wallet) runs to completion, A resumes; afterwards both objects are used once more from a single
    thread.  Every result equals the stateless reference -- shared mutable state that is torn by the switch shows up
    either in A, in B, or in the requests that follow."""
    _real_ckd(E, R, True)
    try:
        public = kind == "pub"
        k1, kb1 = cm.sym_scalar(E, "k")
        k2, kb2 = cm.sym_scalar(E, "k2")
        c1, c2 = E.bytes("c", 32), E.bytes("c2", 32)
        bits = 31 if public else 32
        # A derives a hardened child (reads the private key) on private nodes; B's index is free
        i = E.bv("i", bits) if public else E.bv("i", 32, lo=HARD)
        j = E.bv("j", bits)
        i2, j2 = i, j                   # the later single-threaded requests repeat the two derivations
        if public:
            n1 = R.bip32.PubKeyNode(key=E.H.sec(k1), chain_code=c1)
            n2 = R.bip32.PubKeyNode(key=E.H.sec(k2), chain_code=c2)
        else:
            n1 = R.bip32.PrvKeyNode(key=kb1, chain_code=c1)
            n2 = R.bip32.PrvKeyNode(key=kb2, chain_code=c2)
        reqs = [(k1, c1, i), (k2, c2, j), (k2, c2, j2), (k1, c1, i2)]
        two = [cm.ckd_priv(E, k1, c1, i), cm.ckd_priv(E, k2, c2, j)]
        if any(r[0] == "invalid" for r in two):
            return "invalid"
        refs = [two[0], two[1], two[1], two[0]]
        if public and E.symbolic:
            # IL = 0 corner of the ecdsa fallback on the public side (see C02): outside this case
            for (k, c, x), r in zip(reqs, refs):
                E.assume(r[0] != k)
        ra, rb = E.preempt(lambda: n1.ckd(i), lambda: n2.ckd(j))
        rc = E.run(n2.ckd, j2)
        rd = E.run(n1.ckd, i2)
        got, exp = [], []
        for r, ref in zip((ra, rb, rc, rd), refs):
            if isinstance(r, Raised) or r is None:
                if public and not E.symbolic:
                    continue
                E.fail("interleaved derivations: every result equals the stateless reference")
                continue
            got.append([r.key, r.chain_code])
            exp.append([E.H.sec(ref[0]) if public else ser(ref[0], 32), ref[1]])
        E.check_eq(got, exp, "interleaved derivations: every result equals the stateless reference")
        return "ok"
    finally:
        _real_ckd(E, R, False)


def interleave_same(E, R, public):
    """two threads working on the SAME node: bulk child generation (operation A) is pre-empted once while the other
    thread derives a single child of that node (operation B).  A's result is exactly the children of its own interval,
    in order; B's is its own child."""
    _real_ckd(E, R, False)           # children via the contract: what is under test is the bookkeeping around them
    k, kb = cm.sym_scalar(E, "k")
    c = E.bytes("c", 32)
    a = E.bv("a", 31, hi=2 ** 31 - 4)
    j = E.bv("j", 31)
    node = R.bip32.PubKeyNode(key=E.H.sec(k), chain_code=c) if public else R.bip32.PrvKeyNode(key=kb, chain_code=c)
    if E.symbolic:
        from sx.instrument import __sx_call__ as _call          # through the dispatcher, so that the ckd contract applies
        op_b = lambda: _call(node.ckd, j)
    else:
        op_b = lambda: node.ckd(j)
    ra, rb = E.preempt(lambda: node.generate_children((a, a + 3)), op_b)
    if isinstance(ra, Raised) or isinstance(rb, Raised) or ra is None or rb is None:
        E.fail("interleaved requests on one node: bulk generation returns exactly the children of its interval, in order")
        return "raised"
    E.check(len(ra) == 3, "interleaved requests on one node: bulk generation returns exactly the children of its interval, in order")
    got = [[n.index, n.key if public else (n.key if len(n.key) == 32 else n.key[1:]), n.chain_code] for n in list(ra)[:3]]
    exp = []
    for t in range(3):
        kk, cc, _ = hw.derive(E, k, c, [a + t])
        exp.append([a + t, E.H.sec(kk) if public else ser(kk, 32), cc])
    E.check_eq(got, exp, "interleaved requests on one node: bulk generation returns exactly the children of its interval, in order")
    kj, cj, _ = hw.derive(E, k, c, [j])
    E.check_eq([rb.index, rb.key, rb.chain_code], [j, E.H.sec(kj) if public else ser(kj, 32), cj],
               "interleaved requests on one node: the single derivation returns its own child")
    return "ok"


def after_generate(E, R, purpose):
    """a paper-wallet generation followed by a by-path lookup of a PREFIX of the account path (and of a sibling account) on
    the same wallet and on a second wallet: shared parse results / caches must not leak the account of the earlier request"""
    w, k, c = hw.mk_wallet(E, R, False)
    account = E.bv("account", 31)
    d = E.run(w.generate, account, (0, 0))
    if isinstance(d, Raised):
        return "invalid-bip85"
    w2 = R.paper_wallet.PaperWallet(master=R.bip32.PrvKeyNode(key=w.master.key, chain_code=w.master.chain_code), testnet=False)
    for ww in (w, w2):
        for tail, idxs in (("", [purpose + HARD, HARD]), ("/7'", [purpose + HARD, HARD, 7 + HARD])):
            s = "m/%d'/0'%s" % (purpose, tail)
            n = E.run(ww.by_path, s)
            if isinstance(n, Raised):
                E.fail("by_path after generate works")
                continue
            E.check_eq(_child_fields(n), _ref_fields(E, k, c, idxs), "by_path after a paper-wallet generation returns the node of the path asked for")
            E.check_eq(E.run(n.__repr__) if E.symbolic else str(n), s, "by_path after a paper-wallet generation: node prints the path asked for")
    return "ok"


def generate_twice(E, R, ln1, ln2, same_account):
    from props import C06
    return C06.generate_twice(E, R, False, ln1, ln2, same_account)


def children_real(E, R, public):
    """bulk child generation with the real ckd over an interval that may cross 2^31: every child equals the
    single-step derivation of its own index (hardened ones by the hardened rule; refused on public nodes)"""
    _real_ckd(E, R, True)
    try:
        k, kb = cm.sym_scalar(E, "k")
        c = E.bytes("c", 32)
        a = E.bv("a", 32, hi=2 ** 32 - 3)
        node = R.bip32.PubKeyNode(key=E.H.sec(k), chain_code=c) if public else R.bip32.PrvKeyNode(key=kb, chain_code=c)
        r = E.run(node.generate_children, (a, a + 2))
        refs = [cm.ckd_priv(E, k, c, a + j) for j in range(2)]
        if any(x[0] == "invalid" for x in refs):
            return "invalid"
        if public and (bool(a + 1 >= HARD) if E.symbolic else a + 1 >= HARD):
            E.check(isinstance(r, Raised), "bulk generation on a public node refuses an interval reaching hardened indexes")
            return "refused"
        if isinstance(r, Raised):
            if public:
                return "public-IL0"
            E.fail("bulk generation works for valid children")
            return "raised"
        E.check(len(r) == 2, "bulk generation yields one child per index")
        for j, ch in enumerate(r[:2]):
            exp_key = E.H.sec(refs[j][0]) if public else ser(refs[j][0], 32)
            E.check_eq([ch.key, ch.chain_code, ch.index], [exp_key, refs[j][1], a + j],
                       "bulk-generated child equals the single-step derivation of its index")
        return "ok"
    finally:
        _real_ckd(E, R, False)


def cases(tier):
    cs = []
    for (l1, l2, same) in ((1, 2, True), (2, 1, True)):
        cs.append(Case("generate_twice[%d,%d]" % (l1, l2), "generate_twice", dict(ln1=l1, ln2=l2, same_account=same), weight=40,
                       max_paths=20000, need=("second request: BIP84 account xpub: SLIP-132 version and fields of the account node",)))
    for pub in (False, True):
        cs.append(Case("children_real[public=%s]" % pub, "children_real", dict(public=pub), weight=20, max_paths=5000,
                       need=("bulk-generated child equals the single-step derivation of its index",)))
    for a in OPS:
        for b in OPS:
            cs.append(Case("pair[%s,%s]" % (a, b), "pair", dict(a=a, b=b, testnet=(len(a) + len(b)) % 2 == 0), weight=5, max_paths=5000,
                           need=("no request alters the root key",)))
    for kind in ("prv", "pub"):
        cs.append(Case("interleave[%s]" % kind, "interleave", dict(kind=kind), weight=60, max_paths=20000,
                       need=("interleaved derivations: every result equals the stateless reference",)))
    for pub in (False, True):
        cs.append(Case("interleave_same[public=%s]" % pub, "interleave_same", dict(public=pub), weight=30, max_paths=20000,
                       need=("interleaved requests on one node: bulk generation returns exactly the children of its interval, in order",)))
    for purpose in (44, 84):
        cs.append(Case("after_generate[%d]" % purpose, "after_generate", dict(purpose=purpose), weight=40, max_paths=5000,
                       need=("by_path after a paper-wallet generation returns the node of the path asked for",)))
    for pub in (False, True):
        cs.append(Case("same_key[public=%s]" % pub, "same_key", dict(public=pub), weight=20,
                       need=("child depends on its own parent's key AND chain code, not on earlier derivations",)))
    return cs


def vectors():
    k = "e8f32e723decf4051aefac8e2c93c9c5b214313817cdb01a1494b917c8436b35"
    c = "873dff81c02f525623fd1fe5167eac3a55a049de3d314bb42ee227ffed37d508"
    w = {"k": k, "c": c, "a_i": 19, "b_skip": 3, "a_a": 10, "b_i0": 1, "b_i1": 2, "b_i2": 3, "a_i0": 44 + HARD, "a_i1": 0, "b_i": 2 ** 31, "b_idx": 5,
         "a_skip": 0, "a_idx": 0, "b_a": 0, "a_i2": 7}
    return [("pair", dict(a="ckd", b="generator", testnet=False), w), ("pair", dict(a="children", b="reuse", testnet=True), w),
            ("pair", dict(a="by_path", b="address", testnet=False), w), ("pair", dict(a="generator", b="bip85", testnet=False), w),
            ("same_key", dict(public=False), {"k": k, "c": c, "c2": "11" * 32, "index": 0}),
            ("same_key", dict(public=True), {"k": k, "c": c, "c2": "11" * 32, "index": 7})]
