"""C10 -- Base58Check is lossless and sound.

Base58 arithmetic runs in the engine's mathematical-integer flavour (z3 Int): int.from_bytes is a
linear sum, divmod(x, 58) introduces definitional variables q, r with x = 58q + r.  The oracle is the
positional *value relation*, written here from the Base58 definition and never calling repository code:
    s encodes b  <=>  #leading '1' of s = #leading zero bytes of b
                      and the remaining characters are the base-58 digits (most significant first,
                      no leading zero digit) of int(b)
"""
from sx.runner import Case
from sx.harness import Raised

ID = "C10"
ALPHABET = "123456789ABCDEFGHJKLMNPQRSTUVWXYZabcdefghijkmnopqrstuvwxyz"
FUNCTIONS = ["btc_hd_wallet.helper.encode_base58", "btc_hd_wallet.helper.encode_base58_checksum",
             "btc_hd_wallet.helper.decode_base58", "btc_hd_wallet.helper.decode_base58_checksum",
             "btc_hd_wallet.helper.b58decode_addr", "btc_hd_wallet.helper.hash256"]
BOUNDS = {
    "quick": {"decode(encode(b))": "every byte string of length 1..9, any number of leading zero bytes",
              "encode(decode(s))": "every string over the alphabet of length 1..10",
              "rejection": "every string of length 1..5 of arbitrary Unicode code points",
              "checksum soundness": "every string over the alphabet of length 0..8; checksum round trip for every payload of 0..3 bytes; corrupted checksum for payloads of 0..2 bytes",
              "any length": "encode_base58 on every byte string of 12, 16, 20, 24, 28 and 32 bytes with a non-zero first byte (thorough: every length 12..128); decode_base58 on every alphabet string of 13, 17 and 21 characters not starting with '1' (thorough: 13..40)",
              "real-size decoder": "decode_base58 on every string of 34/35/51/52 characters (first character from the set such strings start with, the rest symbolic); thorough adds 111 characters",
              "real sizes": "encode_base58_checksum on every 21-byte address payload (version 05/6f/c4), 33/34-byte WIF payload (80/ef), content symbolic; thorough adds version 00 and the 78-byte extended-key payloads (12 versions)"},
    "thorough": {"decode(encode(b))": "length 1..11", "encode(decode(s))": "length 1..12", "rejection": "length 1..6",
                 "checksum soundness": "alphabet strings of length 0..9; payloads of 0..4 bytes; corrupted checksum 0..3 bytes"},
}
STUBS = ["hashlib.sha256 -> uninterpreted function per input length (integer-valued, one per output byte)"]
ASSUMPTIONS = ["SHA-256 is a function with 32-byte output (nothing else)",
               "engine models of hex()/bytes.fromhex()/int.to_bytes for mathematical integers"]
OUTSIDE = ["the fully symbolic round trip (decode(encode(b)) == b as one query) beyond 11 bytes / 12 characters; for the real sizes "
           "(21/33/34/78-byte payloads, 34/35/51/52/111-character strings) the encoder and the decoder are each run on symbolic "
           "content and checked against the positional value relation, from which the round trip follows by uniqueness of the "
           "base-58 representation (argument stated, not mechanised)",
           "the decoder on strings longer than 40 characters other than the wallet's own lengths (34/35/51/52/111): the query that "
           "decides the byte length of the result (a comparison of a 57-term linear sum with 16^d) took z3 6-12 minutes per case"]
LEVEL_TEXT = ("Bounded symbolic model checking of the real encode_base58/decode_base58/decode_base58_checksum: "
              "both round-trip directions, the leading-zero rule, rejection of foreign characters and checksum "
              "soundness are solver queries over all byte strings / strings up to the stated lengths.")
LEVEL_NOTE = "Trusted: z3 (linear integer arithmetic + UF), engine models of hex/fromhex/to_bytes; SHA-256 abstracted."


def _idx(E, ch):
    """alphabet index of a character of a Base58 string (reference side)"""
    if isinstance(ch, str):
        return ALPHABET.index(ch)
    return ch.idx if ch.alphabet == ALPHABET else None


def leading(seq, zero):
    n = 0
    for c in seq:
        if c == zero:         # forks on symbolic elements
            n += 1
        else:
            break
    return n


def value_relation(E, s, b, label):
    """assert: s is the Base58 encoding of b"""
    zb = leading(b, 0)
    zs = leading(s, "1")
    E.check(zs == zb, label + ": leading '1's == leading zero bytes")
    digits = list(s)[zs:]
    val = 0
    for ch in digits:
        i = _idx(E, ch)
        if i is None:
            E.fail(label + ": characters from the alphabet")
            return
        val = val * 58 + i
    num = 0
    for x in b:
        num = num * 256 + x
    E.check_eq(val, num, label + ": positional base-58 value")
    if digits:
        E.check(_idx(E, digits[0]) != 0, label + ": no leading zero digit")


def roundtrip(E, R, n):
    b = E.bytes("b", n, mode="int")
    s = E.run(R.helper.encode_base58, b)
    if isinstance(s, Raised):
        E.fail("encode_base58 accepts every non-empty byte string")
        return "raised"
    value_relation(E, s, b, "encode")
    d = E.run(R.helper.decode_base58, s)
    if isinstance(d, Raised):
        E.fail("decode(encode(b)) decodes")
        return "undecodable"
    E.check_eq(d, b, "decode(encode(b)) == b")
    return len(s)


def enc_dec(E, R, m):
    s = E.chars("s", m, ALPHABET)
    d = E.run(R.helper.decode_base58, s)
    if isinstance(d, Raised):
        E.fail("decode_base58 accepts every non-empty alphabet string")
        return "raised"
    value_relation(E, s, d, "decode")
    s2 = E.run(R.helper.encode_base58, d)
    if isinstance(s2, Raised):
        E.fail("encode(decode(s)) encodes")
        return "raised2"
    E.check_eq(s2, s, "encode(decode(s)) == s")
    return len(d)


def reject(E, R, m):
    s = E.chars("s", m, None)
    r = E.run(R.helper.decode_base58, s)
    from sx.values import _char_in
    inalpha = True
    for ch in s:
        inalpha = inalpha & _char_in(ch, ALPHABET) if not isinstance(inalpha, bool) or not isinstance(_char_in(ch, ALPHABET), bool) else (inalpha and _char_in(ch, ALPHABET))
    if not isinstance(inalpha, bool):
        inalpha = bool(inalpha)        # one fork: all characters in the alphabet, or not
    if inalpha:
        E.check(not isinstance(r, Raised), "alphabet string decodes")
        return "alpha"
    E.check(isinstance(r, Raised) and isinstance(r.exc, ValueError), "foreign character -> ValueError")
    rc = E.run(R.helper.decode_base58_checksum, s)
    E.check(isinstance(rc, Raised), "foreign character -> checksum decoder raises")
    return "foreign"


def checksum_sound(E, R, m):
    s = E.chars("s", m, ALPHABET) if m else ""
    p = E.run(R.helper.decode_base58_checksum, s)
    if isinstance(p, Raised):
        return "rej"
    # accepted: s must be the encoding of p || H256(p)[:4]
    c = E.H.hash256(p)[:4]
    full = p + c
    E.check(len(full) >= 4, "accepted string holds a 4-byte checksum")
    value_relation(E, s, full, "accepted")
    a = E.run(R.helper.b58decode_addr, s)
    if isinstance(a, Raised):
        E.fail("b58decode_addr accepts what the checksum decoder accepts")
    else:
        E.check_eq(a, p[1:], "b58decode_addr == payload[1:]")
    return "acc%d" % len(p)


def checksum_roundtrip(E, R, n):
    p = E.bytes("p", n, mode="int")
    s = E.run(R.helper.encode_base58_checksum, p)
    if isinstance(s, Raised):
        E.fail("encode_base58_checksum encodes")
        return "raised"
    value_relation(E, s, p + E.H.hash256(p)[:4], "checksum-encode")
    d = E.run(R.helper.decode_base58_checksum, s)
    if isinstance(d, Raised):
        E.fail("valid checksummed string accepted")
        return "rejected"
    E.check_eq(d, p, "decode_base58_checksum(encode_base58_checksum(p)) == p")
    return len(s)


def checksum_corrupt(E, R, n):
    """a valid string whose 4 checksum bytes were replaced by other bytes is rejected"""
    p = E.bytes("p", n, mode="int")
    c = E.bytes("c", 4, mode="int")
    good = E.H.hash256(p)[:4]
    E.assume(~E_eq(E, c, good) if E.symbolic else c != good)
    s = R.helper.encode_base58(p + c)
    d = E.run(R.helper.decode_base58_checksum, s)
    E.check(isinstance(d, Raised), "wrong checksum rejected")
    return "ok"


def checksum_history(E, R, n, first):
    """state left by earlier requests may not make the decoder accept a wrong checksum: the same payload is first
    handled with its valid checksum (encoded, or decoded successfully), then presented with four other checksum bytes"""
    p = E.bytes("p", n, mode="int") if n else b""
    c = E.bytes("c", 4, mode="int")
    good = E.H.hash256(p)[:4]
    E.assume(~E_eq(E, c, good) if E.symbolic else c != good)
    if first == "encode":
        ok = E.run(R.helper.encode_base58_checksum, p)
    else:
        ok = E.run(R.helper.decode_base58_checksum, R.helper.encode_base58(p + good))
    E.check(not isinstance(ok, Raised), "valid checksummed string handled")
    s = R.helper.encode_base58(p + c)
    d = E.run(R.helper.decode_base58_checksum, s)
    E.check(isinstance(d, Raised), "wrong checksum rejected although the same payload was handled with a valid checksum before")
    return "ok"


def encode_real(E, R, prefix, plen):
    """the real encode_base58_checksum on payloads of the sizes the wallet actually emits (addresses 21, WIF 33/34,
    extended keys 78 bytes): positional value relation, and the first character / length rows that the Base58Check
    summary of the other properties relies on (common.FIRST_CHAR)"""
    from props import common as cm
    pre = bytes.fromhex(prefix)
    tail = E.bytes("tail", plen - len(pre), mode="int")
    if pre[:1] == b"\x00" and len(pre) > 1:
        E.assume(tail[0] != 0)                  # exactly len(pre) leading zero bytes
    payload = pre + tail
    s = E.run(R.helper.encode_base58_checksum, payload)
    if isinstance(s, Raised):
        E.fail("encode_base58_checksum encodes")
        return "raised"
    full = payload + E.H.hash256(payload)[:4]
    value_relation(E, s, full, "real-size encode")
    chars, m = cm.FIRST_CHAR[(pre[:1] if plen != 78 else pre, plen)]
    first = s[0]
    ok = False
    for ch in chars:
        ok = ok | (first == ch) if not isinstance(first == ch, bool) or not isinstance(ok, bool) else (ok or first == ch)
    E.check(ok, "first character of the real encoding is the one the summary assumes")
    if m is not None:
        E.check(len(s) == m, "length of the real encoding is the one the summary assumes")
    return len(s)


def decode_real(E, R, first, m):
    """the real decode_base58 on strings of the lengths the wallet emits (addresses 34/35, WIF 51/52, extended keys 111):
    first character from the set that starts such strings, every other character symbolic.  Asserts the positional value
    relation between the string and the decoded bytes (for these lengths decoding is the exact inverse of encoding by
    uniqueness of the base-58 representation) and the decoded length."""
    if len(first) > 1:
        head = E.chars("h", 1, ALPHABET)
        if E.symbolic:
            import z3
            from sx.values import z3bool
            E.assume(z3.Or(*[z3bool(head[0] == ch) for ch in first]))
        else:
            E.assume(head in first)
    else:
        head = first
    s = head + E.chars("s", m - 1, ALPHABET)
    d = E.run(R.helper.decode_base58, s)
    if isinstance(d, Raised):
        E.fail("decode_base58 accepts every alphabet string of address / WIF / extended-key length")
        return "raised"
    value_relation(E, s, d, "real-size decode")
    return len(d)


def decode_any(E, R, m):
    """decode_base58 on every alphabet string of m characters that does not start with '1' (leading '1's are the
    leading-zero rule, covered for all counts by the short cases and by the real-size ones)"""
    s = E.chars("s", m, ALPHABET)
    E.assume(~(s[0] == "1") if E.symbolic else s[0] != "1")
    d = E.run(R.helper.decode_base58, s)
    if isinstance(d, Raised):
        E.fail("decode_base58 accepts every alphabet string")
        return "raised"
    value_relation(E, s, d, "decode (any length)")
    return len(d)


def encode_any(E, R, n):
    """encode_base58 on every byte string of n bytes with a non-zero first byte: positional value relation"""
    b = E.bytes("b", n, mode="int")
    E.assume(~(b[0] == 0) if E.symbolic else b[0] != 0)
    s = E.run(R.helper.encode_base58, b)
    if isinstance(s, Raised):
        E.fail("encode_base58 accepts every non-empty byte string")
        return "raised"
    value_relation(E, s, b, "encode (any length)")
    return len(s)


def E_eq(E, a, b):
    from sx.values import SxBool, z3bool
    r = E.eq(a, b)
    if isinstance(r, bool):
        import z3
        return SxBool(z3.BoolVal(r))
    return SxBool(r)


def setup_sym(R):
    from sx import env
    env.INT_MODE_HASHES = True


def cases(tier):
    q = tier == "quick"
    cs = []
    for n in range(1, (9 if q else 11) + 1):
        cs.append(Case("roundtrip[%d]" % n, "roundtrip", dict(n=n), need=("decode(encode(b)) == b",), weight=2 ** n))
    for m in range(1, (10 if q else 12) + 1):
        cs.append(Case("enc_dec[%d]" % m, "enc_dec", dict(m=m), need=("encode(decode(s)) == s",), weight=2 ** m))
    for m in range(1, (5 if q else 6) + 1):
        cs.append(Case("reject[%d]" % m, "reject", dict(m=m), need=("foreign character -> ValueError",), weight=3 ** m,
                       max_paths=400000))
    for m in range(0, (8 if q else 9) + 1):
        cs.append(Case("checksum_sound[%d]" % m, "checksum_sound", dict(m=m), weight=2 ** m))
    for n in range(0, (3 if q else 4) + 1):
        cs.append(Case("checksum_roundtrip[%d]" % n, "checksum_roundtrip", dict(n=n), weight=2 ** (n + 4),
                       need=("decode_base58_checksum(encode_base58_checksum(p)) == p",)))
    from props import common as cm
    for (pre, plen) in sorted(cm.FIRST_CHAR):
        if q and (plen == 78 or pre == b"\x00"):
            continue          # 78-byte payloads (3 min each) and the leading-zero address prefix: thorough tier
        cs.append(Case("encode_real[%s,%d]" % (pre.hex(), plen), "encode_real", dict(prefix=pre.hex(), plen=plen), weight=plen,
                       need=("real-size encode: positional base-58 value", "first character of the real encoding is the one the summary assumes")))
    for zeros in (2, 3):
        cs.append(Case("encode_real[%s,21]" % ("00" * zeros), "encode_real", dict(prefix="00" * zeros, plen=21), weight=30,
                       need=("real-size encode: leading '1's == leading zero bytes",)))
    for n in range(0, (2 if q else 3) + 1):
        cs.append(Case("checksum_corrupt[%d]" % n, "checksum_corrupt", dict(n=n), weight=2 ** (n + 4),
                       need=("wrong checksum rejected",)))
    for (first, m) in ((("3", 34), ("mn", 34), ("2", 35), ("5", 51), ("KL", 52), ("x", 111), ("z", 113), ("2", 175)) if q else
                       (("3", 34), ("mn", 34), ("2", 35), ("5", 51), ("KL", 52), ("9", 51), ("c", 52), ("x", 111), ("t", 111),
                        ("z", 112), ("z", 113), ("2", 120), ("z", 140), ("2", 175))):
        cs.append(Case("decode_real[%s,%d]" % (first, m), "decode_real", dict(first=first, m=m), weight=m,
                       need=("real-size decode: positional base-58 value",)))
    for m in ((13, 17, 21) if q else range(13, 41)):
        cs.append(Case("decode_any[%d]" % m, "decode_any", dict(m=m), weight=m // 4, need=("decode (any length): positional base-58 value",)))
    for n in ((12, 16, 20, 24, 28, 32) if q else range(12, 129)):
        cs.append(Case("encode_any[%d]" % n, "encode_any", dict(n=n), weight=n * 2, need=("encode (any length): positional base-58 value",)))
    for n in range(0, (1 if q else 2) + 1):
        for first in ("encode", "decode"):
            cs.append(Case("checksum_history[%d,%s]" % (n, first), "checksum_history", dict(n=n, first=first), weight=2 ** (n + 4),
                           need=("wrong checksum rejected although the same payload was handled with a valid checksum before",)))
    return cs


def vectors():
    """from tests/test_helper.py"""
    v = []
    addr = "mnrVtF8DWjMu839VW3rBfgYaAfKk8983Xf"
    v.append(("checksum_sound", {"m": len(addr)}, {"s": addr}))
    v.append(("enc_dec", {"m": 6}, {"s": "1112Ab"}))
    v.append(("roundtrip", {"n": 5}, {"b": "0000ff0102"}))
    v.append(("reject", {"m": 4}, {"s": "1Il0"}))
    v.append(("checksum_history", {"n": 1, "first": "decode"}, {"p": "6f", "c": "01020304"}))
    return v
