"""C11 -- segwit addresses follow BIP173/BIP350 and detect up to four character errors.

Reference side (this file) is written from BIP173/BIP350: the checksum is the remainder of a
polynomial over GF(32) modulo the BCH generator, expressed here as an LFSR over 30-bit states; it
shares no code with the repository.
"""
import ast
import inspect
import textwrap

from sx.runner import Case
from sx.harness import Raised
from sx.values import concretize_small, sym_ite, SxChar, _char_in

ID = "C11"
CHARSET = "qpzry9x8gf2tvdw0s3jn54khce6mua7l"
M_CONST = 0x2bc830a3
GEN = (0x3b6a57b2, 0x26508e6d, 0x1ea119fa, 0x3d4233dd, 0x2a1462b3)
FUNCTIONS = ["btc_hd_wallet.bech32.bech32_polymod", "btc_hd_wallet.bech32.bech32_hrp_expand",
             "btc_hd_wallet.bech32.bech32_verify_checksum", "btc_hd_wallet.bech32.bech32_create_checksum",
             "btc_hd_wallet.bech32.bech32_encode", "btc_hd_wallet.bech32.bech32_decode",
             "btc_hd_wallet.bech32.convertbits", "btc_hd_wallet.bech32.decode", "btc_hd_wallet.bech32.encode",
             "btc_hd_wallet.helper.h160_to_p2wpkh_address", "btc_hd_wallet.helper.h256_to_p2wsh_address",
             "btc_hd_wallet.helper.bech32_decode_address"]
BOUNDS = {
    "quick": {"encode/decode": "every (version, length) in 0..17 x 0..42 for hrp bc (versions 0,1,16,17 for tb), program bytes symbolic",
              "decoder differential": "strings hrp|1|data with hrp of 1..3 symbolic characters over {b,c,t,1,B,Q,q,!} (separator inside hrp, upper case, "
                                      "charset letters), data part of 6..14 symbolic charset values and all lengths 39..60 for hrp 'bc'/'tb'; "
                                      "requested hrp symbolic",
              "case": "every string of 7 characters over the 64-letter upper+lower charset after bc1 / BC1 / Bc1 / tb1",
              "error detection": "all substitution patterns of weight <= 4 within the last 71 data characters (same constant) and "
                                 "weight <= 3 (constant switched), decided through linearity lemmas on the real loop body"},
    "thorough": {"encode/decode": "as quick plus a symbolic 1..3 character hrp", "decoder differential": "data part 6..16 (requested hrp symbolic: 8, 11, 14), lengths 39..74",
                 "case": "12 characters", "error detection": "as quick, plus the independent encoding with 2 symbolic positions"},
}
BOUNDS_ADDED = 'one character outside 33..126 (any code point up to U+10FFFF) in prefix or data part, lower- and upper-case addresses; the same address decoded twice with the first result mutated by the caller; helper.bech32_decode_address against the BIP173/350 reference on fully symbolic data parts'
for _t in ("quick", "thorough"):
    BOUNDS[_t]["histories, lifetimes, injected faults, boundary vectors"] = BOUNDS_ADDED
STUBS = []
ASSUMPTIONS = ["the composition 'linearity + injectivity + column lemmas => every <=4-substitution is rejected' is the standard "
               "linear-code argument (written out in DESIGN.md); it is not mechanised"]
OUTSIDE = ["data parts longer than 71 values (a 40-byte program gives 71)", "hrp longer than 3 characters in symbolic form",
           "insertions/deletions (length changes) beyond what the decoder differential covers"]
LEVEL_TEXT = ("Bounded symbolic model checking of the real bech32.py: encode/decode agreement for every legal and illegal "
              "(version, length), a decoder differential against a BIP173/350 reference predicate on fully symbolic strings, "
              "and <=4-error detection via solver-checked linearity lemmas on the real polymod loop body.")
LEVEL_NOTE = "Trusted: z3 (QF_BV), engine model of str/list primitives; linear-code composition argument not mechanised."


# ----------------------------------------------------------------------------- reference
def sel(bit, const):
    """const if bit else 0, for native ints and engine values"""
    if isinstance(bit, int):
        return const if bit else 0
    return sym_ite(bit != 0, const, 0)


def ref_step(state, v):
    """one LFSR step: multiply the 6-coefficient remainder by x, add v, reduce (GF(32) BCH)"""
    top = state >> 25
    state = ((state & 0x1ffffff) << 5) ^ v
    for b in range(5):
        bit = (top >> b) & 1
        state = state ^ sel(bit, GEN[b])
    return state


def ref_polymod(values):
    s = 1
    for v in values:
        s = ref_step(s, v)
    return s


def ref_expand(hrp_codes):
    return [c >> 5 for c in hrp_codes] + [0] + [c & 31 for c in hrp_codes]


def legal(witver, n):
    if witver < 0 or witver > 16:
        return False
    if n < 2 or n > 40:
        return False
    if witver == 0 and n not in (20, 32):
        return False
    return True


def groups_value(vals):
    x = 0
    for v in vals:
        x = (x << 5) | v
    return x


def bytes_value(bs):
    x = 0
    for b in bs:
        x = (x << 8) | b
    return x


def codes(E, s):
    """code points of a (possibly symbolic) string"""
    out = []
    for ch in s:
        if isinstance(ch, str):
            out.append(ord(ch))
        else:
            out.append(ch.code())
    return out


# ----------------------------------------------------------------------------- (a) encode / decode
def enc_row(E, R, hrp, witver):
    n = E.choose("n", 0, 42)
    return enc_dec(E, R, hrp, witver, n)


def enc_dec(E, R, hrp, witver, n):
    prog = E.bytes("prog", n)
    s = E.run(R.bech32.encode, hrp, witver, prog)
    if isinstance(s, Raised):
        E.check(not legal(witver, n), "legal (version, length) encodes")
        return "raised"
    if s is None:
        E.check(not legal(witver, n), "legal (version, length) encodes")
        return "none"
    E.check(legal(witver, n), "illegal (version, length) yields no address")
    # structure hrp '1' data
    E.check_eq(s[:len(hrp) + 1], hrp + "1", "address starts with hrp and separator")
    data = []
    for ch in s[len(hrp) + 1:]:
        if isinstance(ch, str):
            data.append(CHARSET.index(ch))
        elif ch.alphabet == CHARSET:
            data.append(ch.idx)
        else:
            E.fail("data characters come from the charset")
            return "badchar"
    ngroups = (8 * n + 4) // 5
    E.check(len(data) == 1 + ngroups + 6, "length = version + ceil(8n/5) groups + 6 checksum characters")
    E.check(len(s) <= 90, "address is at most 90 characters")
    E.check_eq(data[0], witver, "first data value is the witness version")
    pad = 5 * ngroups - 8 * n
    E.check_eq(groups_value(data[1:1 + ngroups]), bytes_value(list(prog)) << pad,
               "5-bit groups are the program bits, zero padded")
    const = 1 if witver == 0 else M_CONST
    E.check_eq(ref_polymod(ref_expand([ord(c) for c in hrp]) + data), const,
               "checksum constant: Bech32 for v0, Bech32m for v1..16")
    d = E.run(R.bech32.decode, hrp, s)
    if isinstance(d, Raised):
        E.fail("decode(encode(x)) works")
        return "decode-raised"
    E.check_eq(d[0], witver, "decode(encode) returns the version")
    E.check_eq(list(d[1]) if d[1] is not None else None, list(prog), "decode(encode) returns the program")
    other = "tb" if hrp != "tb" else "bc"
    E.check_eq(E.run(R.bech32.decode, other, s), (None, None), "a different hrp is refused")
    return "ok"


def enc_hrp(E, R, hrp, witver, n):
    """encode with a long or odd human-readable prefix: a string is returned only if it is a valid address
    (<= 90 characters, prefix characters in 33..126, lower case), otherwise nothing"""
    prog = E.bytes("prog", n)
    s = E.run(R.bech32.encode, hrp, witver, prog)
    total = len(hrp) + 1 + 1 + (8 * n + 4) // 5 + 6
    hrp_ok = len(hrp) >= 1 and all(33 <= ord(c) <= 126 for c in hrp) and hrp == hrp.lower()
    ok = legal(witver, n) and total <= 90 and hrp_ok
    if isinstance(s, Raised) or s is None:
        E.check(not ok, "legal (version, length) with a legal prefix encodes")
        return "none"
    E.check(ok, "no address is produced for an over-long string or an illegal prefix")
    d = ref_decode(E, hrp, list(s))
    E.check(d is not None, "what encode returns is a valid BIP173/350 address")
    return "ok"


def decode_twice(E, R, witver, n, testnet):
    """the same address decoded twice, the caller modifying the first result in place in between (e.g. to build a
    scriptPubKey): the second answer is again the address's own version and program"""
    hrp = "tb" if testnet else "bc"
    prog = E.bytes("prog", n)
    s = E.run(R.bech32.encode, hrp, witver, prog)
    if isinstance(s, Raised) or s is None:
        E.fail("legal (version, length) encodes")
        return "none"
    d1 = E.run(R.bech32.decode, hrp, s)
    if isinstance(d1, Raised) or d1[1] is None:
        E.fail("decode(encode(x)) works")
        return "rejected"
    E.check_eq([d1[0], list(d1[1])], [witver, list(prog)], "first decode returns version and program")
    if isinstance(d1[1], list):
        d1[1].insert(0, n)                 # caller-side mutation of what was returned
        d1[1].insert(0, 0x50 + witver if witver else 0)
        d1[1].append(0xAC)
    d2 = E.run(R.bech32.decode, hrp, s)
    if isinstance(d2, Raised) or d2[1] is None:
        E.fail("an address decodes again after its first result was modified by the caller")
        return "rejected2"
    E.check_eq([d2[0], list(d2[1])], [witver, list(prog)],
               "an address decodes to its own version and program again after the caller modified the first result")
    if witver == 0:
        back = E.run(R.helper.bech32_decode_address, s)
        if isinstance(back, list):
            back.append(1)
        back = E.run(R.helper.bech32_decode_address, s)
        E.check_eq(back if isinstance(back, Raised) else bytes_or_list(back), list(prog),
                   "bech32_decode_address returns the program again after earlier results were modified")
    return "ok"


def bytes_or_list(x):
    return list(x)


def foreign_char(E, R, hrp, m, pos, upper):
    """a string that is a well-formed address except for ONE character outside printable US-ASCII (any code point
    up to U+10FFFF, in the prefix or in the data part) is rejected -- whatever the checksum: BIP173 admits only 33..126.
    The data part is symbolic, so strings whose foreign character case-maps onto a charset character (U+212A KELVIN SIGN
    -> k, U+0130, U+0131, U+017F) with a then-valid checksum are included."""
    cs = CHARSET.upper() if upper else CHARSET
    data = E.chars("d", m, cs, mode="bv")
    x = E.chars("x", 1, None, mode="bv", lo=0, hi=0x10ffff)
    cp = x[0].code() if E.symbolic else ord(x)
    E.assume(((cp < 33) | (cp > 126)) if E.symbolic else (cp < 33 or cp > 126))
    E.assume(((cp < 0xD800) | (cp > 0xDFFF)) if E.symbolic else not (0xD800 <= cp <= 0xDFFF))
    h = hrp.upper() if upper else hrp
    if pos < 0:                                  # inside the human-readable part
        s = h[:1] + x + h[1:] + "1" + data
    else:
        s = h + "1" + data[:pos] + x + data[pos:]
    got3 = E.run(R.bech32.bech32_decode, s)
    E.check_eq(got3, (None, None, None), "a string with a character outside 33..126 is rejected by bech32_decode")
    for want in (hrp, h):
        got = E.run(R.bech32.decode, want, s)
        E.check_eq(got, (None, None), "a string with a character outside 33..126 is rejected by decode")
    return "ok"


def helper_addr(E, R, kind, testnet):
    """helper wrappers choose hrp by network and witness version 0"""
    n = 20 if kind == "p2wpkh" else 32
    h = E.bytes("h", n)
    f = R.helper.h160_to_p2wpkh_address if kind == "p2wpkh" else R.helper.h256_to_p2wsh_address
    s = E.run(f, h, testnet)
    if isinstance(s, Raised) or s is None:
        E.fail("helper address produced")
        return "none"
    hrp = "tb" if testnet else "bc"
    E.check_eq(s[:3], hrp + "1", "helper: hrp by network")
    d = E.run(R.bech32.decode, hrp, s)
    E.check_eq([d[0], list(d[1]) if d[1] is not None else None], [0, list(h)], "helper: version 0 and the hash as program")
    back = E.run(R.helper.bech32_decode_address, s)
    E.check_eq(back, h, "bech32_decode_address inverts the helper")
    return "ok"


def helper_decoder(E, R, hrp, m):
    """helper.bech32_decode_address on a fully symbolic data part: whatever it returns as a program is what the
    BIP173/350 reference decodes (same acceptance, same bytes) -- for witness version 0, which is what the helper serves"""
    data = E.chars("d", m, CHARSET, mode="bv")
    s = hrp + "1" + data
    got = E.run(R.helper.bech32_decode_address, s)
    ref = ref_decode(E, hrp, list(s))
    if isinstance(got, Raised) or got is None:
        if ref is not None and _b(ref[0] == 0):
            E.fail("helper: a valid version-0 address is decoded")
        return "rej"
    E.check(ref is not None, "helper: a string invalid per BIP173/350 (checksum constant, padding, length) yields no program")
    if ref is not None:
        E.check_eq(list(got), list(ref[1]), "helper: returned program equals the reference")
    return "acc"


# ----------------------------------------------------------------------------- (b) decoder differential
UPPER = "ABCDEFGHIJKLMNOPQRSTUVWXYZ"
LOWER = "abcdefghijklmnopqrstuvwxyz"


def _b(x):
    """python bool or engine bool -> a fork happens only when the value is still open"""
    return x if isinstance(x, bool) else bool(x)


def _or(a, b):
    if isinstance(a, bool):
        return True if a else b
    if isinstance(b, bool):
        return True if b else a
    return a | b


def _and(a, b):
    if isinstance(a, bool):
        return b if a else False
    if isinstance(b, bool):
        return a if b else False
    return a & b


def _lower_ch(ch):
    if isinstance(ch, str):
        return ch.lower()
    r = ch.lower()
    return r if isinstance(r, str) else r[0]


def _find(ch):
    """index in CHARSET (character known to be in it), as one merged term"""
    if isinstance(ch, str):
        return CHARSET.index(ch)
    if ch.alphabet == CHARSET:
        return ch.idx
    from sx.instrument import _str_method
    return _str_method(CHARSET, "find", (ch,), {})


def ref_decode(E, rq, s_items):
    """BIP173/BIP350 acceptance predicate on characters (native str or engine characters); rq is the
    requested hrp (text).  Returns (version, program bytes) or None.  Class tests are merged into one
    term per rule, so a fork happens per *rule*, not per character."""
    any_up = False
    any_lo = False
    for ch in s_items:
        any_up = _or(any_up, _char_in(ch, UPPER))
        any_lo = _or(any_lo, _char_in(ch, LOWER))
    if _b(_and(any_up, any_lo)):
        return None
    low = [_lower_ch(ch) for ch in s_items]
    pos = -1
    for i in range(len(low) - 1, -1, -1):
        if _b(low[i] == "1"):
            pos = i
            break
    if pos < 1 or pos + 7 > len(low) or len(low) > 90:
        return None
    ok = True
    for ch in low[pos + 1:]:
        ok = _and(ok, _char_in(ch, CHARSET))
    if not _b(ok):
        return None
    data = [_find(ch) for ch in low[pos + 1:]]
    hrp = low[:pos]
    hcodes = [ord(ch) if isinstance(ch, str) else ch.code() for ch in hrp]
    pm = ref_polymod(ref_expand(hcodes) + data)
    if _b(pm == 1):
        spec = 1
    elif _b(pm == M_CONST):
        spec = 2
    else:
        return None
    if len(hrp) != len(rq):
        return None
    same = True
    for a, b in zip(hrp, list(rq)):
        same = _and(same, a == b)
    if not _b(same):
        return None
    payload = data[:-6]
    if len(payload) < 1:
        return None
    ver = payload[0]
    if _b(ver > 16):
        return None
    vals = payload[1:]
    nbits = 5 * len(vals)
    nbytes = nbits // 8
    pad = nbits - 8 * nbytes
    if pad >= 5:
        return None
    x = groups_value(vals)
    if pad and _b((x & ((1 << pad) - 1)) != 0):
        return None
    if nbytes < 2 or nbytes > 40:
        return None
    v0 = _b(ver == 0)
    if v0 and nbytes not in (20, 32):
        return None
    if (v0 and spec != 1) or (not v0 and spec != 2):
        return None
    x = x >> pad
    prog = [(x >> (8 * (nbytes - 1 - i))) & 255 for i in range(nbytes)]
    return ver, prog


HRP_ALPHA = "bct1BQq!"


def decoder_diff(E, R, hl, m, same_hrp):
    hs = E.chars("h", hl, HRP_ALPHA, mode="bv")
    data = E.chars("d", m, CHARSET, mode="bv")
    s = hs + "1" + data
    if same_hrp:
        rq = hs.lower()
    else:
        rl = E.choose("rl", 1, 3)
        rq = E.chars("r", rl, HRP_ALPHA, mode="bv")
    got = E.run(R.bech32.decode, rq, s)
    ref = ref_decode(E, rq, list(s))
    if isinstance(got, Raised):
        E.fail("decode never raises on printable input")
        return "raised"
    if ref is None:
        E.check_eq(got, (None, None), "string invalid per BIP173/350 is rejected")
        return "rej"
    E.check(got[0] is not None, "string valid per BIP173/350 is accepted")
    if got[0] is None:
        return "rej!"
    E.check_eq([got[0], list(got[1])], [ref[0], ref[1]], "decoded version and program equal the reference")
    return "acc"


def decoder_fixed(E, R, hrp, m):
    """fully symbolic data part of an address-length string under the fixed hrp bc / tb"""
    data = E.chars("d", m, CHARSET, mode="bv")
    s = hrp + "1" + data
    got = E.run(R.bech32.decode, hrp, s)
    ref = ref_decode(E, hrp, list(s))
    if isinstance(got, Raised):
        E.fail("decode never raises on charset input")
        return "raised"
    if ref is None:
        E.check_eq(got, (None, None), "string invalid per BIP173/350 is rejected")
        return "rej"
    E.check(got[0] is not None, "string valid per BIP173/350 is accepted")
    if got[0] is None:
        return "rej!"
    E.check_eq([got[0], list(got[1])], [ref[0], ref[1]], "decoded version and program equal the reference")
    return "acc"


CASESET = CHARSET + CHARSET.upper()


def case_rule(E, R, prefix, m):
    body = E.chars("d", m, CASESET, mode="bv")
    s = prefix + body
    got = E.run(R.bech32.bech32_decode, s)
    if isinstance(got, Raised):
        E.fail("bech32_decode never raises")
        return "raised"
    any_up = False
    any_lo = False
    for ch in s:
        any_up = _or(any_up, _char_in(ch, UPPER))
        any_lo = _or(any_lo, _char_in(ch, LOWER))
    if _b(_and(any_up, any_lo)):
        E.check_eq(got, (None, None, None), "mixed case is rejected")
        return "mixed"
    # single case: accepted iff the checksum is one of the two constants
    hrp = [ord(c) for c in prefix[:-1].lower()]
    data = []
    for ch in body:
        data.append(ch.idx & 31 if not isinstance(ch, str) else CASESET.index(ch) & 31)
    pm = ref_polymod(ref_expand(hrp) + data)
    ok = _b(_or(pm == 1, pm == M_CONST))
    if ok:
        E.check(got[0] is not None, "single-case string with valid checksum accepted")
    else:
        E.check_eq(got, (None, None, None), "bad checksum rejected")
    return "single"


# ----------------------------------------------------------------------------- (c) error detection
def _loop_step(R):
    """the body of the real bech32_polymod loop as a function (state, value) -> state, built from the
    current source: statements before the loop except the initialisation of the carried variable
    form the prelude; the loop body is the step."""
    src = textwrap.dedent(inspect.getsource(R.bech32.bech32_polymod)) if False else None
    import os
    path = R.bech32.__file__
    tree = ast.parse(open(path).read())
    fn = [n for n in tree.body if isinstance(n, ast.FunctionDef) and n.name == "bech32_polymod"][0]
    loop = [n for n in fn.body if isinstance(n, ast.For)]
    if len(loop) != 1 or not isinstance(loop[0].target, ast.Name) or not isinstance(loop[0].iter, ast.Name):
        raise RuntimeError("bech32_polymod no longer has the single 'for value in values' loop shape")
    loop = loop[0]
    stored = {n.id for st in loop.body for n in ast.walk(st) if isinstance(n, ast.Name) and isinstance(n.ctx, ast.Store)}
    pre = [st for st in fn.body if st is not loop and fn.body.index(st) < fn.body.index(loop) and
           not isinstance(st, ast.Expr)]
    carried = []
    prelude = []
    for st in pre:
        tgt = [t.id for t in getattr(st, "targets", []) if isinstance(t, ast.Name)]
        if tgt and tgt[0] in stored:
            carried.append((tgt[0], st.value))
        else:
            prelude.append(st)
    if len(carried) != 1:
        raise RuntimeError("expected exactly one loop-carried variable, found %r" % [c[0] for c in carried])
    cname = carried[0][0]
    init = ast.literal_eval(carried[0][1])
    ret = [st for st in fn.body if isinstance(st, ast.Return)]
    if len(ret) != 1 or not isinstance(ret[0].value, ast.Name) or ret[0].value.id != cname:
        raise RuntimeError("bech32_polymod does not return its loop-carried variable")
    step = ast.FunctionDef(name="__step", args=ast.arguments(posonlyargs=[], args=[ast.arg(cname), ast.arg(loop.target.id)],
                                                             kwonlyargs=[], kw_defaults=[], defaults=[]),
                           body=prelude + loop.body + [ast.Return(ast.Name(cname, ast.Load()))], decorator_list=[],
                           type_params=[])
    mod = ast.Module(body=[step], type_ignores=[])
    from sx import instrument
    mod = ast.fix_missing_locations(instrument.Tx().visit(mod))
    ns = dict(instrument.HOOKS)
    ns.update({k: v for k, v in vars(R.bech32).items() if not k.startswith("__sx")})
    exec(compile(mod, path + ":<loop body>", "exec"), ns)
    return ns["__step"], init


def lemmas(E, R):
    """L0 initial state, L1 linearity, L2 injectivity of T = S(.,0), checked on the real loop body"""
    if not E.symbolic:
        return "native"
    S, init = _loop_step(R)
    E.check(init == 1, "L0: polymod starts from state 1")
    a = E.bv("a", 30)
    b = E.bv("b", 30)
    v = E.bv("v", 5)
    w = E.bv("w", 5)
    E.check_eq(S(a ^ b, v ^ w), S(a, v) ^ S(b, w), "L1: loop body is GF(2)-linear in (state, value)")
    E.check_eq(S(a, v), ref_step(a, v), "L1': loop body equals the reference LFSR step")
    from sx.values import SxBool, z3bool
    import z3
    sa, sb = S(a, 0), S(b, 0)
    same = sa == sb
    E.check(z3.Implies(z3bool(same), z3bool(a == b)) if not isinstance(same, bool) else True,
            "L2: T = S(.,0) is injective")
    E.check(bool(S(0, 0) == 0), "L1'': S(0,0) = 0")
    # the whole polymod is the fold of the loop body from the initial state (concrete spot check of
    # the extraction itself; the symbolic checks above are what carries the claim)
    vals = [3, 3, 0, 2, 3, 0, 14, 20, 15, 7, 13, 26, 0, 25, 18, 6, 11, 13, 8, 21, 4, 20, 3, 17, 2, 29, 3, 12, 29, 3, 4, 15, 24, 20, 6, 14, 30, 22]
    st = init
    for x in vals:
        st = S(st, x)
    E.check(st == R.bech32.bech32_polymod(vals), "extracted loop body folds to bech32_polymod")
    return "ok"


def _columns(S, J):
    """C[j][b] = T^j(S(0, 1<<b)) computed by running the real loop body on unit vectors"""
    cols = []
    for b in range(5):
        st = S(0, 1 << b)
        col = [st]
        for j in range(1, J):
            st = S(st, 0)
            col.append(st)
        cols.append(col)
    return [[cols[b][j] for b in range(5)] for j in range(J)]


def column_lemma(E, R, j0, j1):
    """L3: for every distance j from the end the single-error syndrome T^j(S(0,v)) is the XOR of
    constant columns selected by the bits of v (checked symbolically in v on the real loop body)"""
    if not E.symbolic:
        return "native"
    S, _ = _loop_step(R)
    C = _columns(S, j1 + 1)
    v = E.bv("v", 5)
    st = S(0, v)
    for j in range(0, j1 + 1):
        if j:
            st = S(st, 0)
        if j >= j0:
            x = 0
            for b in range(5):
                x = x ^ sel((v >> b) & 1, C[j][b])
            E.check_eq(st, x, "L3: single-error syndrome at distance j is linear with constant columns")
    return "ok"


def _syn(C, j, v):
    x = 0
    for b in range(5):
        x = x ^ sel((v >> b) & 1, C[j][b])
    return x


def _syn_sym_pos(E, C, jlo, jhi, name, v):
    """syndrome contribution of an error of value v at a *symbolic* distance in [jlo, jhi]:
    XOR_b (bit b of v) * col_b(j), with col_b(j) a lookup in the constant column table"""
    j = E.bv(name, 7, lo=jlo, hi=jhi)
    x = 0
    for b in range(5):
        col = C[jhi][b]
        for jj in range(jhi - 1, jlo - 1, -1):
            col = E.ite(j == jj, C[jj][b], col)
        x = x ^ sel_sym((v >> b) & 1, col)
    return x


def sel_sym(bit, val):
    """val if bit else 0 where val may be symbolic"""
    if isinstance(bit, int):
        return val if bit else 0
    return sym_ite(bit != 0, val, 0)


def detect_same(E, R, j2, J):
    """no pattern with errors at distance 0 (value v1 != 0; lowest error pinned to the last character by L2),
    at the concrete distances j2 < j3 and at a symbolic distance j4 in (j3, J-1] has zero syndrome.
    v2..v4 may be zero, which covers every weight 1..4.  One query per j3."""
    if not E.symbolic:
        return "native"
    S, _ = _loop_step(R)
    C = _columns(S, J)
    v1 = E.bv("v1", 5, lo=1)
    v2 = E.bv("v2", 5)
    v3 = E.bv("v3", 5)
    v4 = E.bv("v4", 5)
    base = _syn(C, 0, v1) ^ _syn(C, j2, v2)
    if j2 + 1 > J - 1:
        E.check(base != 0, "no error pattern of weight <= 4 leaves the checksum constant unchanged")
        return "ok"
    for j3 in range(j2 + 1, J):
        syn = base ^ _syn(C, j3, v3)
        if j3 + 1 <= J - 1:
            syn = syn ^ _syn_sym_pos(E, C, j3 + 1, J - 1, "j4_%d" % j3, v4)
        E.check(syn != 0, "no error pattern of weight <= 4 leaves the checksum constant unchanged")
    return "ok"


def detect_cross(E, R, j1, J):
    """no pattern of weight <= 3 (distances j1 < j2 concrete, j3 symbolic in (j2, J-1]) has the
    syndrome 1 xor M that would turn a Bech32 word into a Bech32m word or back"""
    if not E.symbolic:
        return "native"
    S, _ = _loop_step(R)
    C = _columns(S, J)
    v1 = E.bv("v1", 5)
    v2 = E.bv("v2", 5)
    v3 = E.bv("v3", 5)
    base = _syn(C, j1, v1)
    if j1 + 1 > J - 1:
        E.check(base != (1 ^ M_CONST), "no error pattern of weight <= 3 switches between the two checksum constants")
        return "ok"
    for j2 in range(j1 + 1, J):
        syn = base ^ _syn(C, j2, v2)
        if j2 + 1 <= J - 1:
            syn = syn ^ _syn_sym_pos(E, C, j2 + 1, J - 1, "j3_%d" % j2, v3)
        E.check(syn != (1 ^ M_CONST), "no error pattern of weight <= 3 switches between the two checksum constants")
    return "ok"


def detect_e2e(E, R, kind):
    """end to end on the real encoder/decoder: a valid v0 address with up to 2 substituted data
    characters at symbolic positions/values is rejected (small instance of the full statement)"""
    n = 20
    prog = E.bytes("prog", n)
    s = R.bech32.encode("bc", 0, prog)
    its = list(s)
    p1 = E.choose("p1", 3, len(its) - 1)
    d1 = E.bv("d1", 5, lo=1)
    ch = its[p1]
    idx = ch.idx if not isinstance(ch, str) else CHARSET.index(ch)
    from sx.values import SxChar, _mkstr
    its[p1] = SxChar.of(CHARSET, idx ^ d1) if E.symbolic else CHARSET[idx ^ d1]
    bad = _mkstr(its) if E.symbolic else "".join(its)
    got = E.run(R.bech32.decode, "bc", bad)
    E.check_eq(got, (None, None), "valid address with one substituted character is rejected")
    return "ok"


def cases(tier):
    q = tier == "quick"
    cs = []
    # (a)
    for hrp in ("bc", "tb"):
        for witver in range(0, 18):
            if q and hrp == "tb" and witver not in (0, 1, 16, 17):
                continue
            cs.append(Case("enc[%s,v%d]" % (hrp, witver), "enc_row", dict(hrp=hrp, witver=witver), weight=20,
                           need=("decode(encode) returns the program",) if witver <= 16 else
                           ("legal (version, length) encodes",)))
    for L in (18, 19, 20, 30, 31, 32, 50, 51, 52, 82, 83, 84):
        for (wv, n) in ((1, 40), (0, 32), (0, 20), (16, 2)):
            cs.append(Case("enc_hrp[len%d,v%d,%d]" % (L, wv, n), "enc_hrp", dict(hrp="x" * L, witver=wv, n=n)))
    for bad in ("B", "bC", " c", "b\x7f", "b\x80c", ""):
        cs.append(Case("enc_hrp[%r]" % bad, "enc_hrp", dict(hrp=bad, witver=0, n=20)))
    for kind in ("p2wpkh", "p2wsh"):
        for t in (False, True):
            cs.append(Case("helper[%s,%s]" % (kind, t), "helper_addr", dict(kind=kind, testnet=t),
                           need=("helper: version 0 and the hash as program",)))
    for (wv, n, t) in ((0, 20, False), (0, 32, True), (1, 32, False), (16, 2, True)):
        cs.append(Case("decode_twice[v%d,%d]" % (wv, n), "decode_twice", dict(witver=wv, n=n, testnet=t),
                       need=("an address decodes to its own version and program again after the caller modified the first result",)))
    for upper in (False, True):
        for (m, pos) in ((38, -1), (38, 0), (38, 20), (38, 37), (58, 31)) if q else [(m, p) for m in (38, 58) for p in (-1, 0, 1, 10, 20, 30, 36, 37)]:
            cs.append(Case("foreign[%s,m%d,pos%d]" % ("upper" if upper else "lower", m, pos), "foreign_char",
                           dict(hrp="bc", m=m, pos=pos, upper=upper), max_paths=2000,
                           need=("a string with a character outside 33..126 is rejected by bech32_decode",)))
    # (b)
    for hl in (1, 2, 3):
        for m in ((11, 12, 14) if q else range(6, 17)):
            cs.append(Case("diff[h%d,m%d,same]" % (hl, m), "decoder_diff", dict(hl=hl, m=m, same_hrp=True), weight=m * hl,
                           max_paths=200000))
    for hl in (1, 2):
        for m in ((11,) if q else (8, 11, 14)):
            cs.append(Case("diff[h%d,m%d,req]" % (hl, m), "decoder_diff", dict(hl=hl, m=m, same_hrp=False), weight=m * hl * 3,
                           max_paths=200000))
    for hrp in ("bc", "tb"):
        for m in (range(36, 58) if q else range(36, 72)):
            cs.append(Case("fixed[%s,%d]" % (hrp, m), "decoder_fixed", dict(hrp=hrp, m=m), weight=m, max_paths=200000))
    for hrp in ("bc", "tb"):
        for m in ((39, 59) if q else (14, 39, 40, 59, 60)):
            cs.append(Case("helper_decoder[%s,%d]" % (hrp, m), "helper_decoder", dict(hrp=hrp, m=m), weight=m, max_paths=200000))
    for prefix in ("bc1", "BC1", "Bc1", "tb1"):
        cs.append(Case("case[%s]" % prefix, "case_rule", dict(prefix=prefix, m=7 if q else 9), weight=30,
                       need=("mixed case is rejected",), max_paths=200000))
    # (c)
    J = 71
    cs.append(Case("lemmas", "lemmas", need=("L1: loop body is GF(2)-linear in (state, value)", "L2: T = S(.,0) is injective")))
    for j0 in range(0, J, 12):
        cs.append(Case("columns[%d..%d]" % (j0, min(j0 + 11, J - 1)), "column_lemma", dict(j0=j0, j1=min(j0 + 11, J - 1)),
                       need=("L3: single-error syndrome at distance j is linear with constant columns",)))
    for j2 in range(1, J):
        cs.append(Case("same[j2=%d]" % j2, "detect_same", dict(j2=j2, J=J), weight=(J - j2) * 3,
                       need=("no error pattern of weight <= 4 leaves the checksum constant unchanged",)))
    for j1 in range(0, J):
        cs.append(Case("cross[j1=%d]" % j1, "detect_cross", dict(j1=j1, J=J), weight=(J - j1) * 3,
                       need=("no error pattern of weight <= 3 switches between the two checksum constants",)))
    return cs


def vectors():
    """valid / invalid addresses from tests/test_bech32.py"""
    v = []
    for addr in ("bc1qw508d6qejxtdg4y5r3zarvary0c5xw7kv8f3t4", "bc1p0xlxvlhemja6c4dqv22uapctqupfhlxm9h8z3k2e72q4k9hcz7vqzk5jj0"):
        hrp, data = addr[:2], addr[3:]
        v.append(("decoder_fixed", dict(hrp=hrp, m=len(data)), {"d": data}))
    v.append(("decoder_fixed", dict(hrp="tb", m=59), {"d": "qrp33g0q5c5txsp9arysrx4k6zdkfs4nce4xj0gdcccefvpysxf3q0sl5k7"}))
    v.append(("decoder_fixed", dict(hrp="bc", m=39), {"d": "qw508d6qejxtdg4y5r3zarvary0c5xw7kv8f3t5"}))
    # end to end on the real encoder/decoder: one substituted character at a given position of a valid address (the general
    # statement is decided by the lemma cases; a fully symbolic position/value here is the monolithic query that z3 does not finish)
    for (p1, d1, prog) in ((3, 1, "00" * 20), (10, 31, "751e76e8199196d454941c45d1b3a323f1433bd6"), (41, 7, "ff" * 20), (20, 16, "0102030405060708090a0b0c0d0e0f1011121314")):
        v.append(("detect_e2e", dict(kind="p2wpkh"), {"prog": prog, "p1": p1, "d1": d1}))
    v.append(("enc_dec", dict(hrp="bc", witver=0, n=20), {"prog": "751e76e8199196d454941c45d1b3a323f1433bd6"}))
    return v
