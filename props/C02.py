"""C02 -- public-only derivation agrees with private derivation on every normal path."""
from sx.runner import Case
from sx.harness import Raised
from props import common as cm, h_bip32
from props.common import N, HARD, ser

ID = "C02"
FUNCTIONS = ["btc_hd_wallet.bip32.PubKeyNode.ckd", "btc_hd_wallet.bip32.PubKeyNode.public_key",
             "btc_hd_wallet.bip32.PrvKeyNode.ckd", "btc_hd_wallet.bip32.PubKeyNode.derive_path",
             "btc_hd_wallet.bip32.PubKeyNode.extended_public_key", "btc_hd_wallet.keys.PublicKey.parse",
             "btc_hd_wallet.keys.PublicKey.from_point", "btc_hd_wallet.keys.PublicKey.sec", "btc_hd_wallet.keys.PublicKey.point",
             "btc_hd_wallet.keys.PrivateKey.parse"]
BOUNDS = {"quick": {"values": "no bound on parent key, chain code, depth, fingerprint, PRF output; index: all of [0, 2^32) "
                              "(refusal for every index >= 2^31)", "path length": "1..3 non-hardened symbolic indexes"},
          "thorough": {"values": "as quick", "path length": "1..5"}}
BOUNDS_ADDED = 'leaf kept alone, L = 1..2; the same index list object passed twice; invalid public children raise, also when asked twice'
for _t in ("quick", "thorough"):
    BOUNDS[_t]["histories, lifetimes, injected faults, boundary vectors"] = BOUNDS_ADDED
STUBS = ["HMAC-SHA512, SHA-256, RIPEMD-160 -> uninterpreted functions", "secp256k1 (ecdsa) -> group model (Z_n,+): "
         "(IL + k)*G = IL*G + k*G is an arithmetic fact the solver checks, so what is decided is whether the code composes "
         "the group operations correctly", "Base58Check -> recording summary"]
ASSUMPTIONS = ["0 < IL < n and child != infinity (invalid cases are C18)",
               "IL = 0 excluded: the ecdsa fallback raises there (zero scalar rejected) where BIP32 would return K_par; "
               "reaching it needs an HMAC-SHA512 preimage of a zero half"]
OUTSIDE = ["secp256k1 arithmetic itself (ecdsa)", "paths longer than 5"]
LEVEL_TEXT = ("Symbolic execution of the real PubKeyNode.ckd and PrvKeyNode.ckd side by side in the group model: equal "
              "keys, chain codes, fingerprints, metadata and xpub payloads for every parent, index and PRF output; every "
              "index >= 2^31 is refused without deriving.")
LEVEL_NOTE = "Trusted: z3, the group model of ecdsa (points as discrete logs, SEC as uninterpreted bijection)."


# a counterexample may hinge on a property of a point the group model abstracts (an x coordinate with a leading zero byte,
# a particular parity): the replay then searches concrete keys / indexes at random for a bounded time
RANDOM_REPLAY = {"inputs": {"k": 32, "c": 32}, "always": True, "seconds": 60,
                 "ints": {"index": (0, 2 ** 31 - 1), "i0": (0, 2 ** 31 - 1), "i1": (0, 2 ** 31 - 1), "i2": (0, 2 ** 31 - 1)}}


def setup_sym(R):
    cm.setup_bip32_sym(R)


def step(E, R, testnet):
    return h_bip32.pub_step(E, R, testnet, "C02")


def refusal_int(E, R):
    """indexes beyond 32 bits are refused as well (unbounded integer)"""
    node, p = h_bip32.mk_parent(E, R, 32, False, public=True)
    i = E.int("index", lo=2 ** 31)
    r = E.run(node.ckd, i)
    E.check(isinstance(r, Raised), "every index >= 2^31 refused (unbounded)")
    E.check(len(node.children) == 0, "no child appended on refusal (unbounded)")
    return "refused"


def chain(E, R, L, testnet, hard_at):
    """private chain neutered vs public chain from the root's SEC key, level by level"""
    k, kb = cm.sym_scalar(E, "k")
    c = E.bytes("c", 32)
    depth = E.bv("depth", 8, hi=254 - L)
    fp = E.bytes("fp", 4)
    pidx = E.bv("pidx", 32)
    idxs = []
    for j in range(L):
        if j == hard_at:
            idxs.append(E.bv("i%d" % j, 32, lo=2 ** 31))
        else:
            idxs.append(E.bv("i%d" % j, 31))
    prv = R.bip32.PrvKeyNode(key=kb, chain_code=c, index=pidx, depth=depth, testnet=testnet, parent_fingerprint=fp)
    pub = R.bip32.PubKeyNode(key=E.H.sec(k), chain_code=c, index=pidx, depth=depth, testnet=testnet,
                             parent_fingerprint=fp)
    if hard_at is not None:
        r = E.run(pub.derive_path, list(idxs))
        E.check(isinstance(r, Raised), "derive_path with a hardened element raises on public data")
        return "refused"
    a, b = prv, pub
    for j, i in enumerate(idxs):
        a2 = E.run(a.ckd, i)
        b2 = E.run(b.ckd, i)
        if isinstance(a2, Raised):
            return "private-invalid@%d" % j
        if isinstance(b2, Raised):
            # only legitimate when IL = 0 (see ASSUMPTIONS)
            I = E.H.hmac512(a.chain_code, E.H.sec(cm.ifb(a.key, "big")) + ser(i, 4))
            E.check(cm.ifb(I[:32], "big") == 0, "public derivation succeeds whenever private derivation does")
            return "public-raised@%d" % j
        a, b = a2, b2
        E.check_eq(b.key, a.public_key.sec(), "level %d: public key" % j)
        E.check_eq(b.chain_code, a.chain_code, "level %d: chain code" % j)
        E.check_eq([b.depth, b.index, b.testnet], [a.depth, a.index, a.testnet], "level %d: depth/index/network" % j)
        E.check_eq(b.parent_fingerprint, a.parent_fingerprint, "level %d: parent fingerprint" % j)
        E.check_eq(b.fingerprint(), a.fingerprint(), "level %d: fingerprint" % j)
        E.check_eq(cm.b58_payload(E, R, b.extended_public_key()), cm.b58_payload(E, R, a.extended_public_key()),
                   "level %d: serialised extended public key" % j)
    # derive_path in one go gives the same leaf -- also when the same list object is used twice
    same_list = list(idxs)
    root2 = R.bip32.PubKeyNode(key=E.H.sec(k), chain_code=c, index=pidx, depth=depth, testnet=testnet, parent_fingerprint=fp)
    leaf = E.run(root2.derive_path, same_list)
    if isinstance(leaf, Raised):
        E.fail("derive_path on public data returns the leaf")
        return "raised"
    E.check_eq([leaf.key, leaf.chain_code, leaf.depth, leaf.index], [b.key, b.chain_code, b.depth, b.index],
               "derive_path == iterated ckd (public)")
    E.check(len(same_list) == L and all(x is y for x, y in zip(same_list, idxs)), "derive_path leaves the caller's index list unchanged")
    leaf2 = E.run(R.bip32.PubKeyNode(key=E.H.sec(k), chain_code=c, index=pidx, depth=depth, testnet=testnet,
                                     parent_fingerprint=fp).derive_path, same_list)
    E.check(not isinstance(leaf2, Raised) and E.eq([leaf2.key, leaf2.chain_code, leaf2.depth, leaf2.index], [b.key, b.chain_code, b.depth, b.index]),
            "a second derivation with the same list object gives the same node (public)")
    return "ok"


def children(E, R):
    from props import C13
    return C13.children_real(E, R, True)


def leaf_only(E, R, L, via, testnet):
    return h_bip32.leaf_only(E, R, L, True, via, testnet)


def cases(tier):
    cs = [Case("children", "children", weight=20, max_paths=5000,
               need=("bulk generation on a public node refuses an interval reaching hardened indexes",
                     "bulk-generated child equals the single-step derivation of its index"))]
    for t in (False, True):
        cs.append(Case("step[testnet=%s]" % t, "step", dict(testnet=t),
                       need=("public child key == SEC((IL + k)*G) == private child's public key",
                             "hardened index refused by public derivation",
                             "xpub payload of public child == that of the neutered private child")))
    cs.append(Case("refusal_unbounded", "refusal_int", need=("every index >= 2^31 refused (unbounded)",)))
    top = 3 if tier == "quick" else 5
    for L in range(1, top + 1):
        cs.append(Case("chain[%d]" % L, "chain", dict(L=L, testnet=(L % 2 == 0), hard_at=None), weight=10 * L,
                       max_paths=5000, need=("level %d: public key" % (L - 1), "derive_path == iterated ckd (public)")))
        for h in range(L):
            cs.append(Case("chain[%d,hardened@%d]" % (L, h), "chain", dict(L=L, testnet=False, hard_at=h),
                           need=("derive_path with a hardened element raises on public data",)))
    for L, via in ((1, "ckd"), (2, "derive_path"), (2, "ckd")):
        cs.append(Case("leaf_only[%d,%s]" % (L, via), "leaf_only", dict(L=L, via=via, testnet=(via == "ckd" and L == 2)), weight=10 * L,
                       max_paths=5000, need=("leaf kept alone (ancestors garbage-collected): parent fingerprint is that of the last parent",
                                             "leaf kept alone (ancestors garbage-collected): xpub string payload")))
    return cs


def vectors():
    k = "e8f32e723decf4051aefac8e2c93c9c5b214313817cdb01a1494b917c8436b35"
    c = "873dff81c02f525623fd1fe5167eac3a55a049de3d314bb42ee227ffed37d508"
    return [("step", dict(testnet=False), dict(k=k, c=c, depth=0, pidx=0, fp="00000000", index=1)),
            ("step", dict(testnet=False), dict(k=k, c=c, depth=0, pidx=0, fp="00000000", index=2 ** 31)),
            ("chain", dict(L=2, testnet=False, hard_at=None), dict(k=k, c=c, depth=0, pidx=0, fp="00000000", i0=0, i1=7)),
            ("leaf_only", dict(L=2, via="ckd", testnet=False), dict(k=k, c=c, i0=0, i1=7))]
