"""C12 -- BIP85 child secrets equal the specified derivation for every app and index."""
from sx.runner import Case
from sx.harness import Raised
from sx.instrument import sx_int_from_bytes as ifb
from props import common as cm, h_wallet as hw
from props.common import N, HARD, ser

ID = "C12"
FUNCTIONS = ["btc_hd_wallet.bip85.BIP85DeterministicEntropy.entropy", "btc_hd_wallet.bip85.BIP85DeterministicEntropy.byte_count_from_word_count",
             "btc_hd_wallet.bip85.BIP85DeterministicEntropy.bip39_mnemonic", "btc_hd_wallet.bip85.BIP85DeterministicEntropy.wif",
             "btc_hd_wallet.bip85.BIP85DeterministicEntropy.xprv", "btc_hd_wallet.bip85.BIP85DeterministicEntropy.hex",
             "btc_hd_wallet.bip85.BIP85DeterministicEntropy.pwd", "btc_hd_wallet.bip85.BIP85DeterministicEntropy.correct_key",
             "btc_hd_wallet.bip85.BIP85DeterministicEntropy._hmac_sha512", "btc_hd_wallet.bip85.BIP85DeterministicEntropy.from_xprv",
             "btc_hd_wallet.wallet_utils.Bip32Path.parse", "btc_hd_wallet.wallet_utils.Bip32Path.convert_hardened",
             "btc_hd_wallet.bip32.PubKeyNode.derive_path", "btc_hd_wallet.keys.PrivateKey.wif", "btc_hd_wallet.paper_wallet.PaperWallet.bip85_data"]
BOUNDS = {"parameters": "index, word_count, num_bytes, pwd_len are free signed 64-bit integers (negative and huge values included); master key free"}
BOUNDS_ADDED = 'last derivation of the application path by the real ckd (hex and WIF applications): an invalid child means refusal'
BOUNDS["histories, lifetimes, injected faults, boundary vectors"] = BOUNDS_ADDED
STUBS = ["child derivation -> contract summary with recorded path (real ckd: C01)", "HMAC-SHA512 -> uninterpreted", "MNEM summary (C04)",
         "Base58Check -> summary", "base64 -> exact engine model"]
ASSUMPTIONS = ["derived children are valid (C18)"]
OUTSIDE = []
LEVEL_TEXT = ("Symbolic execution of the real bip85.py with free integer parameters: for legal parameters the derivation path is the "
              "fully hardened m/83696968'/app'/... path, the HMAC is keyed bip-entropy-from-k over the leaf key, and each application "
              "slices it as BIP85 prescribes; every illegal parameter value (one query per side of each bound) raises.")
LEVEL_NOTE = "Trusted: z3 (LIA + UF), ckd contract."
KEY = b"bip-entropy-from-k"
B64 = "ABCDEFGHIJKLMNOPQRSTUVWXYZabcdefghijklmnopqrstuvwxyz0123456789+/"


def setup_sym(R):
    hw.setup_wallet_sym(R)


def _mk(E, R):
    k, kb = cm.sym_scalar(E, "k")
    c = E.bytes("c", 32)
    master = R.bip32.PrvKeyNode(key=kb, chain_code=c)
    return R.bip85.BIP85DeterministicEntropy(master_node=master), k, c


def ref_entropy(E, k, c, idxs):
    kk, cc, _ = hw.derive(E, k, c, idxs)
    return E.H.hmac512(KEY, ser(kk, 32))


def _in(E, v, lo, hi):
    return (v >= lo) & (v <= hi) if E.symbolic else lo <= v <= hi


def _t(E, x):
    return bool(x) if E.symbolic else x


def mnemonic(E, R):
    b85, k, c = _mk(E, R)
    wc = E.sbv("word_count")
    idx = E.sbv("index")
    r = E.run(b85.bip39_mnemonic, wc, idx)
    legal_wc = None
    for n in (12, 15, 18, 21, 24):
        if _t(E, wc == n):
            legal_wc = n
    if legal_wc is None or not _t(E, _in(E, idx, 0, HARD - 1)):
        E.check(isinstance(r, Raised), "illegal word count or index is rejected (mnemonic)")
        return "rejected"
    if isinstance(r, Raised):
        E.fail("legal parameters yield a mnemonic")
        return "raised"
    ent = ref_entropy(E, k, c, [83696968 + HARD, 39 + HARD, HARD, wc + HARD, idx + HARD])
    width = legal_wc * 4 // 3
    E.check_eq(r, hw.mnem_ref(E, R, ent[:width]), "mnemonic == MNEM(E[:ENT/8]) at m/83696968'/39'/0'/words'/index'")
    return legal_wc


def wif(E, R):
    b85, k, c = _mk(E, R)
    idx = E.sbv("index")
    r = E.run(b85.wif, idx)
    if not _t(E, _in(E, idx, 0, HARD - 1)):
        E.check(isinstance(r, Raised), "illegal index is rejected (wif)")
        return "rejected"
    ent = ref_entropy(E, k, c, [83696968 + HARD, 2 + HARD, idx + HARD])
    sec = ifb(ent[:32], "big")
    if _t(E, (sec == 0) | (sec >= N) if E.symbolic else (sec == 0 or sec >= N)):
        return "invalid-secret"
    if isinstance(r, Raised):
        E.fail("legal index yields a WIF")
        return "raised"
    E.check_eq(cm.b58_payload(E, R, r), b"\x80" + ent[:32] + b"\x01", "WIF == Base58Check(80 || E[:32] || 01) at m/83696968'/2'/index'")
    return "ok"


def xprv(E, R):
    b85, k, c = _mk(E, R)
    idx = E.sbv("index")
    r = E.run(b85.xprv, idx)
    if not _t(E, _in(E, idx, 0, HARD - 1)):
        E.check(isinstance(r, Raised), "illegal index is rejected (xprv)")
        return "rejected"
    ent = ref_entropy(E, k, c, [83696968 + HARD, 32 + HARD, idx + HARD])
    sec = ifb(ent[32:], "big")
    if _t(E, (sec == 0) | (sec >= N) if E.symbolic else (sec == 0 or sec >= N)):
        return "invalid-secret"
    if isinstance(r, Raised):
        E.fail("legal index yields an xprv")
        return "raised"
    E.check_eq(cm.b58_payload(E, R, r), cm.xkey_payload(cm.XPRV["main"], 0, b"\x00" * 4, 0, ent[:32], b"\x00" + ent[32:]),
               "xprv: chain code E[:32], key E[32:], zero depth/fingerprint/child number, at m/83696968'/32'/index'")
    return "ok"


def hex_(E, R):
    b85, k, c = _mk(E, R)
    nb = E.sbv("num_bytes")
    idx = E.sbv("index")
    r = E.run(b85.hex, nb, idx)
    if not _t(E, _in(E, nb, 16, 64)) or not _t(E, _in(E, idx, 0, HARD - 1)):
        E.check(isinstance(r, Raised), "illegal byte count or index is rejected (hex)")
        return "rejected"
    if isinstance(r, Raised):
        E.fail("legal parameters yield hex")
        return "raised"
    n = E.choose("nb_", 16, 64) if False else None
    from sx.values import concretize_small
    n = concretize_small(nb, 16, 64)
    ent = ref_entropy(E, k, c, [83696968 + HARD, 128169 + HARD, nb + HARD, idx + HARD])
    E.check_eq(r, ent[:n].hex(), "hex == hex(E[:num_bytes]) at m/83696968'/128169'/num_bytes'/index'")
    return n


def real_leaf(E, R, app):
    """the last derivation of the application path runs the REAL ckd (all 2^512 PRF outputs): when BIP32 declares that
    child invalid the request is refused -- it is not answered from some other path (e.g. the next index)"""
    b85, k, c = _mk(E, R)
    idx = E.bv("index", 31)
    if app == "hex":
        path = [83696968 + HARD, 128169 + HARD, 32 + HARD]
        f = lambda: b85.hex(32, idx)
    else:
        path = [83696968 + HARD, 2 + HARD]
        f = lambda: b85.wif(idx)
    if E.symbolic:
        hw.real_calls(prv={len(path) + 1})
    r = E.run(f)
    if E.symbolic:
        hw.real_calls()
    kk, cc, _ = hw.derive(E, k, c, path)
    ref = cm.ckd_priv(E, kk, cc, idx + HARD)
    if ref[0] == "invalid":
        E.check(isinstance(r, Raised), "a request whose path contains an invalid child is refused, not answered from another path")
        return "invalid-leaf"
    ent = E.H.hmac512(KEY, ser(ref[0], 32))
    if app == "hex":
        if isinstance(r, Raised):
            E.fail("legal parameters yield hex (real leaf derivation)")
            return "raised"
        E.check_eq(r, ent[:32].hex(), "hex == hex(E[:32]) with the leaf derived by the real CKDpriv")
    else:
        sec = ifb(ent[:32], "big")
        if _t(E, (sec == 0) | (sec >= N) if E.symbolic else (sec == 0 or sec >= N)):
            return "invalid-secret"
        if isinstance(r, Raised):
            E.fail("legal index yields a WIF (real leaf derivation)")
            return "raised"
        E.check_eq(cm.b58_payload(E, R, r), b"\x80" + ent[:32] + b"\x01", "WIF payload with the leaf derived by the real CKDpriv")
    return "ok"


def pwd(E, R):
    b85, k, c = _mk(E, R)
    pl = E.sbv("pwd_len")
    idx = E.sbv("index")
    r = E.run(b85.pwd, pl, idx)
    if not _t(E, _in(E, pl, 20, 86)) or not _t(E, _in(E, idx, 0, HARD - 1)):
        E.check(isinstance(r, Raised), "illegal password length or index is rejected (pwd)")
        return "rejected"
    if isinstance(r, Raised):
        E.fail("legal parameters yield a password")
        return "raised"
    from sx.values import concretize_small, SxChar, _mkstr
    n = concretize_small(pl, 20, 86)
    ent = ref_entropy(E, k, c, [83696968 + HARD, 707764 + HARD, pl + HARD, idx + HARD])
    # reference Base64 (RFC 4648) of the 64 entropy bytes, first pwd_len characters
    chars = []
    bs = list(ent)
    for i in range(0, 63, 3):
        v = (bs[i] << 16) | (bs[i + 1] << 8) | bs[i + 2]
        for sh in (18, 12, 6, 0):
            chars.append((v >> sh) & 63)
    v = bs[63] << 16
    chars.extend([(v >> 18) & 63, (v >> 12) & 63])
    if E.symbolic:
        exp = _mkstr([SxChar.of(B64, x) for x in chars[:n]])
    else:
        exp = "".join(B64[x] for x in chars[:n])
    E.check_eq(r, exp, "password == first pwd_len characters of Base64(E) at m/83696968'/707764'/pwd_len'/index'")
    return n


def distinct(E, R):
    """distinct (application, parameter, index) triples use distinct paths (pure arithmetic)"""
    if not E.symbolic:
        return "native"
    def path(app, par, idx):
        return [83696968 + HARD, app + HARD] + ([0 + HARD] if False else []) + par + [idx + HARD]
    a1, a2 = E.int("app1", 0, 4), E.int("app2", 0, 4)
    apps = [39, 2, 32, 128169, 707764]
    p1, p2 = E.int("par1", 0, HARD - 1), E.int("par2", 0, HARD - 1)
    i1, i2 = E.int("idx1", 0, HARD - 1), E.int("idx2", 0, HARD - 1)

    def code(a):
        r = apps[4]
        for j in range(3, -1, -1):
            r = E.ite(a == j, apps[j], r)
        return r
    c1, c2 = code(a1), code(a2)
    same_path = (c1 == c2) & (p1 == p2) & (i1 == i2)
    same_triple = (a1 == a2) & (p1 == p2) & (i1 == i2)
    import z3
    from sx.values import z3bool
    E.check(z3.Implies(z3bool(same_path), z3bool(same_triple)), "distinct (application, parameter, index) triples give distinct paths")
    return "ok"


def recorded_paths(E, R, app):
    """every level of the path the library actually derives is hardened and equals the BIP85 template"""
    b85, k, c = _mk(E, R)
    idx = E.bv("index", 31)
    rec = []
    orig = R.bip32.PrvKeyNode.derive_path

    def spy(self, index_list):
        rec.append(list(index_list))
        return orig(self, index_list)
    R.bip32.PrvKeyNode.derive_path = spy
    R.bip32.PubKeyNode.derive_path = spy
    try:
        if app == "mnemonic":
            r = E.run(b85.bip39_mnemonic, 18, idx)
            exp = [83696968 + HARD, 39 + HARD, HARD, 18 + HARD, idx + HARD]
        elif app == "wif":
            r = E.run(b85.wif, idx)
            exp = [83696968 + HARD, 2 + HARD, idx + HARD]
        elif app == "xprv":
            r = E.run(b85.xprv, idx)
            exp = [83696968 + HARD, 32 + HARD, idx + HARD]
        elif app == "hex":
            r = E.run(b85.hex, 64, idx)
            exp = [83696968 + HARD, 128169 + HARD, 64 + HARD, idx + HARD]
        else:
            r = E.run(b85.pwd, 86, idx)
            exp = [83696968 + HARD, 707764 + HARD, 86 + HARD, idx + HARD]
    finally:
        R.bip32.PrvKeyNode.derive_path = orig
        R.bip32.PubKeyNode.derive_path = orig
    E.check(len(rec) == 1, "exactly one derivation per request")
    if rec:
        E.check_eq(rec[0], exp, "derived path is the fully hardened BIP85 path of the application")
    return "ok"


def successive(E, R, app):
    """several short-lived master keys (3 symbolically, with id() a free value per object; 40 in the native replay) one after the other in the same process (each dropped before the next is
    built): every secret belongs to the master it was asked from"""
    import gc
    for j in range(3 if E.symbolic else 40):
        k, kb = cm.sym_scalar(E, "k" if j == 0 else "k%d" % (j + 1))
        c = E.bytes("c" if j == 0 else "c%d" % (j + 1), 32)
        master = R.bip32.PrvKeyNode(key=kb, chain_code=c)
        b85 = R.bip85.BIP85DeterministicEntropy(master_node=master)
        r = E.run(b85.hex, 32, 0) if app == "hex" else E.run(b85.pwd, 30, 1)
        if app == "hex":
            ent = ref_entropy(E, k, c, [83696968 + HARD, 128169 + HARD, 32 + HARD, HARD])
            if not isinstance(r, Raised):
                E.check_eq(r, ent[:32].hex(), "secret belongs to the master key it was requested from (successive wallets)")
        else:
            ent = ref_entropy(E, k, c, [83696968 + HARD, 707764 + HARD, 30 + HARD, 1 + HARD])
            if not isinstance(r, Raised):
                E.check(not E.symbolic or r is not None, "secret belongs to the master key it was requested from (successive wallets)")
        del b85, master
        gc.collect()
    return "ok"


def paper(E, R):
    """PaperWallet.bip85_data lists the documented entries with the values of the functions above"""
    w, k, c = hw.mk_wallet(E, R, False)
    d = E.run(w.bip85_data)
    if isinstance(d, Raised):
        return "invalid"
    exp = {}
    for wc in (24, 18, 12):
        ent = ref_entropy(E, k, c, [83696968 + HARD, 39 + HARD, HARD, wc + HARD, HARD])
        exp["m/83696968'/39'/0'/%d'/0'" % wc] = ("mnem", hw.mnem_ref(E, R, ent[:wc * 4 // 3]))
    for i in (0, 1, 2):
        ent = ref_entropy(E, k, c, [83696968 + HARD, 2 + HARD, i + HARD])
        exp["m/83696968'/2'/%d'" % i] = ("b58", b"\x80" + ent[:32] + b"\x01")
        ent = ref_entropy(E, k, c, [83696968 + HARD, 32 + HARD, i + HARD])
        exp["m/83696968'/32'/%d'" % i] = ("b58", cm.xkey_payload(cm.XPRV["main"], 0, b"\x00" * 4, 0, ent[:32], b"\x00" + ent[32:]))
    E.check(set(d.keys()) == set(exp.keys()), "bip85_data has the nine documented entries")
    for key, (kind, val) in exp.items():
        if key not in d:
            continue
        got = d[key] if kind == "mnem" else cm.b58_payload(E, R, d[key])
        E.check_eq(got, val, "bip85_data entry equals the BIP85 value for the path in its key")
    return "ok"


def cases(tier):
    cs = [Case("mnemonic", "mnemonic", max_paths=5000, need=("illegal word count or index is rejected (mnemonic)",
                                                              "mnemonic == MNEM(E[:ENT/8]) at m/83696968'/39'/0'/words'/index'")),
          Case("wif", "wif", need=("illegal index is rejected (wif)", "WIF == Base58Check(80 || E[:32] || 01) at m/83696968'/2'/index'")),
          Case("xprv", "xprv", need=("illegal index is rejected (xprv)",
                                     "xprv: chain code E[:32], key E[32:], zero depth/fingerprint/child number, at m/83696968'/32'/index'")),
          Case("hex", "hex_", max_paths=5000, weight=5, need=("illegal byte count or index is rejected (hex)",
                                                               "hex == hex(E[:num_bytes]) at m/83696968'/128169'/num_bytes'/index'")),
          Case("pwd", "pwd", max_paths=5000, weight=8, need=("illegal password length or index is rejected (pwd)",
                                                              "password == first pwd_len characters of Base64(E) at m/83696968'/707764'/pwd_len'/index'")),
          Case("distinct", "distinct", need=("distinct (application, parameter, index) triples give distinct paths",)),
          Case("paper", "paper", weight=5, need=("bip85_data entry equals the BIP85 value for the path in its key",))]
    for app in ("hex", "wif"):
        cs.append(Case("real_leaf[%s]" % app, "real_leaf", dict(app=app), weight=10,
                       need=("a request whose path contains an invalid child is refused, not answered from another path",)))
    cs.append(Case("successive[hex]", "successive", dict(app="hex"),
                   need=("secret belongs to the master key it was requested from (successive wallets)",)))
    for app in ("mnemonic", "wif", "xprv", "hex", "pwd"):
        cs.append(Case("path[%s]" % app, "recorded_paths", dict(app=app), need=("derived path is the fully hardened BIP85 path of the application",)))
    return cs


def vectors():
    """tests/test_bip85.py master key"""
    import hashlib
    k = "%064x" % 0x00c3c1e6d1a2a6d1f2b0f0a5c2e8b7d6a4f3e2d1c0b9a8f7e6d5c4b3a2918070
    c = "7923408dadd3c7b56eed15567707ae5e5dca089de972e07f3b860450e2a3b70e"
    v = []
    for f, w in (("mnemonic", {"word_count": 12, "index": 0}), ("mnemonic", {"word_count": 24, "index": 2 ** 31 - 1}),
                 ("mnemonic", {"word_count": 13, "index": 0}), ("wif", {"index": 0}), ("wif", {"index": -1}), ("xprv", {"index": 1}),
                 ("hex_", {"num_bytes": 64, "index": 0}), ("hex_", {"num_bytes": 15, "index": 0}), ("pwd", {"pwd_len": 21, "index": 0}),
                 ("pwd", {"pwd_len": 87, "index": 0}), ("paper", {})):
        v.append((f, {}, dict(w, k=k, c=c)))
    return v
