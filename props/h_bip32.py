"""Harnesses over one BIP32 derivation step (shared by C01, C02, C18).

Symbolic parent: secret scalar k in [1, n-1] (all 2^256 candidates, incl. leading-zero scalars),
32-byte chain code, depth 0..254, parent child-number, parsed fingerprint, index in [0, 2^32).
The HMAC-SHA512 PRF is an uninterpreted function, so its 64 output bytes range over all 2^512
values (IL >= n, IL = n - k, ... included).  secp256k1 is the group model of sx.env.
"""
from sx.harness import Raised
from sx.instrument import sx_int_from_bytes as ifb
from props import common as cm
from props.common import N, HARD, ser


def mk_parent(E, R, form, testnet, public=False):
    k, kb = cm.sym_scalar(E, "k")
    c = E.bytes("c", 32)
    depth = E.bv("depth", 8, hi=254)
    pidx = E.bv("pidx", 32)
    fp = E.bytes("fp", 4)
    if public:
        key = E.H.sec(k)
        node = R.bip32.PubKeyNode(key=key, chain_code=c, index=pidx, depth=depth, testnet=testnet,
                                  parent_fingerprint=fp)
    else:
        key = kb if form == 32 else b"\x00" + kb
        node = R.bip32.PrvKeyNode(key=key, chain_code=c, index=pidx, depth=depth, testnet=testnet,
                                  parent_fingerprint=fp)
    return node, dict(k=k, kb=kb, c=c, depth=depth, pidx=pidx, fp=fp, key=key)


def priv_step(E, R, form, testnet, prop):
    """one PrvKeyNode.ckd step against CKDpriv.  prop='C01': valid outputs must be exactly the
    spec's; prop='C18': invalid outputs must raise and append nothing."""
    node, p = mk_parent(E, R, form, testnet)
    i = E.bv("index", 32)
    child = E.run(node.ckd, i)
    ref = cm.ckd_priv(E, p["k"], p["c"], i)
    if ref[0] == "invalid":
        if prop in ("C18", "C01"):
            E.check(isinstance(child, Raised), "invalid private child (%s) raises" % ref[1])
            E.check(len(node.children) == 0, "no child appended for an invalid derivation")
            # asking again does not change the answer (a child registered before the validity check would be
            # handed out by a lookup of already-derived children)
            again = E.run(node.ckd, i)
            E.check(isinstance(again, Raised), "invalid private child (%s) raises again on a second request" % ref[1])
        return "invalid:" + ref[1]
    ki, IR = ref
    if isinstance(child, Raised):
        E.fail("valid private child is returned (%s)" % ("hardened" if i >= HARD else "normal"))
        return "raised"
    if prop == "C18":
        E.check(True, "valid private child is returned")
        return "valid"
    E.check_eq(child.key, ser(ki, 32), "child key == ser256((IL + k_par) mod n), 32 bytes")
    E.check_eq(child.chain_code, IR, "child chain code == IR")
    E.check_eq(child.depth, p["depth"] + 1, "child depth == parent depth + 1")
    E.check_eq(child.index, i, "child number == i")
    E.check(child.testnet is testnet, "network flag inherited")
    E.check_eq(child.parent_fingerprint, cm.fingerprint(E, p["k"]), "parent fingerprint == HASH160(SEC(k_par*G))[:4]")
    E.check(len(node.children) == 1 and node.children[0] is child, "exactly the child is appended")
    # exactly one PRF call keyed by the parent chain code (observed through the environment model)
    # parent unchanged
    E.check_eq([node.key, node.chain_code, node.depth, node.index, node.testnet],
               [p["key"], p["c"], p["depth"], p["pidx"], testnet], "parent fields unchanged")
    # serialisations of the derived node
    ver_prv = cm.XPRV["test" if testnet else "main"]
    ver_pub = cm.XPUB["test" if testnet else "main"]
    fpr = cm.fingerprint(E, p["k"])
    xprv = E.run(child.extended_private_key)
    xpub = E.run(child.extended_public_key)
    if isinstance(xprv, Raised) or isinstance(xpub, Raised):
        E.fail("derived node serialises")
        return "ser-raised"
    E.check_eq(cm.b58_payload(E, R, xprv),
               cm.xkey_payload(ver_prv, p["depth"] + 1, fpr, i, IR, b"\x00" + ser(ki, 32)),
               "xprv payload == version|depth|fp|ser32(i)|c|00|ser256(k_i)")
    E.check_eq(cm.b58_payload(E, R, xpub),
               cm.xkey_payload(ver_pub, p["depth"] + 1, fpr, i, IR, E.H.sec(ki)),
               "xpub payload == version|depth|fp|ser32(i)|c|SEC(k_i*G)")
    return "hardened" if i >= HARD else "normal"


def pub_step(E, R, testnet, prop):
    """one PubKeyNode.ckd step: C02 agreement with the private side / refusal of hardened;
    C18: invalid ones raise"""
    node, p = mk_parent(E, R, 32, testnet, public=True)
    i = E.bv("index", 32)
    child = E.run(node.ckd, i)
    if i >= HARD:
        if prop == "C02":
            E.check(isinstance(child, Raised), "hardened index refused by public derivation")
            E.check(len(node.children) == 0, "no child appended on refusal")
        return "hardened"
    ref = cm.ckd_pub_dlog(E, p["k"], p["c"], i)
    if ref[0] == "invalid":
        if prop in ("C18", "C02"):
            E.check(isinstance(child, Raised), "invalid public child (%s) raises" % ref[1])
            E.check(len(node.children) == 0, "no child appended for an invalid derivation")
            again = E.run(node.ckd, i)
            E.check(isinstance(again, Raised), "invalid public child (%s) raises again on a second request" % ref[1])
        return "invalid:" + ref[1]
    ki, IR = ref
    IL_zero = (ki == p["k"])          # IL = 0: ecdsa fallback cannot form point(0); see DESIGN C02 note
    if isinstance(child, Raised):
        if prop == "C02" or prop == "C18":
            E.check(IL_zero, "valid public child is returned")
        return "raised"
    if prop == "C18":
        return "valid"
    E.check_eq(child.key, E.H.sec(ki), "public child key == SEC((IL + k)*G) == private child's public key")
    E.check_eq(child.chain_code, IR, "public child chain code == IR")
    E.check_eq(child.depth, p["depth"] + 1, "public child depth")
    E.check_eq(child.index, i, "public child number")
    E.check(child.testnet is testnet, "network flag inherited (public)")
    E.check_eq(child.parent_fingerprint, cm.fingerprint(E, p["k"]), "public child's parent fingerprint")
    E.check(len(node.children) == 1 and node.children[0] is child, "exactly the child is appended (public)")
    xpub = E.run(child.extended_public_key)
    if isinstance(xpub, Raised):
        E.fail("public child serialises")
        return "ser-raised"
    E.check_eq(cm.b58_payload(E, R, xpub),
               cm.xkey_payload(cm.XPUB["test" if testnet else "main"], p["depth"] + 1, cm.fingerprint(E, p["k"]), i, IR,
                               E.H.sec(ki)), "xpub payload of public child == that of the neutered private child")
    return "normal"


def master(E, R, seedlen, testnet, prop):
    seed = E.bytes("seed", seedlen)
    m = E.run(R.bip32.PrvKeyNode.master_key, seed, testnet) if testnet else E.run(R.bip32.PrvKeyNode.master_key, seed)
    I = E.H.hmac512(b"Bitcoin seed", seed)
    IL = ifb(I[:32], "big")
    if IL == 0 or IL >= N:
        if prop == "C18":
            E.check(isinstance(m, Raised), "invalid master key (IL = 0 or IL >= n) raises")
        return "invalid"
    if isinstance(m, Raised):
        E.fail("valid master key is returned")
        return "raised"
    if prop == "C18":
        return "valid"
    E.check_eq(m.key, I[:32], "master key == IL")
    E.check_eq(m.chain_code, I[32:], "master chain code == IR")
    E.check_eq([m.depth, m.index, m.parent_fingerprint, m.testnet], [0, 0, b"\x00" * 4, testnet],
               "master depth/index/fingerprint zero, network as requested")
    return "valid"


def leaf_only(E, R, L, public, via, testnet):
    """object lifetime: the caller keeps nothing but the derived leaf (root and intermediate nodes are temporaries
    that are garbage by the time the leaf is used).  The leaf's parent fingerprint and its extended-key strings must
    still be the ones the specification defines -- they may not depend on an ancestor object being alive."""
    import gc
    k, kb = cm.sym_scalar(E, "k")
    c = E.bytes("c", 32)
    idxs = [E.bv("i%d" % j, 31 if public else 32) for j in range(L)]

    def mk():
        if public:
            node = R.bip32.PubKeyNode(key=E.H.sec(k), chain_code=c, testnet=testnet)
        else:
            node = R.bip32.PrvKeyNode(key=kb, chain_code=c, testnet=testnet)
        if via == "derive_path":
            return node.derive_path(list(idxs))
        for i in idxs:
            node = node.ckd(i)
        return node

    leaf = E.run(mk)
    gc.collect()
    kk, cc = k, c
    fpr = b"\x00" * 4
    for j, i in enumerate(idxs):
        ref = cm.ckd_priv(E, kk, cc, i)
        if ref[0] == "invalid":
            return "invalid@%d" % j
        fpr = cm.fingerprint(E, kk)
        kk, cc = ref
    if isinstance(leaf, Raised):
        if not public:
            E.fail("leaf-only: derivation returns the node for a valid path")
        return "raised"
    lab = "leaf kept alone (ancestors garbage-collected): "
    E.check_eq(leaf.key, E.H.sec(kk) if public else ser(kk, 32), lab + "key")
    E.check_eq([leaf.chain_code, leaf.depth, leaf.index], [cc, L, idxs[-1]], lab + "chain code, depth, child number")
    pf = E.run(lambda: leaf.parent_fingerprint)
    E.check(not isinstance(pf, Raised), lab + "parent fingerprint available")
    if not isinstance(pf, Raised):
        E.check_eq(pf, fpr, lab + "parent fingerprint is that of the last parent")
    net = "test" if testnet else "main"
    xpub = E.run(leaf.extended_public_key)
    if isinstance(xpub, Raised):
        E.fail(lab + "xpub string payload")
    else:
        E.check_eq(cm.b58_payload(E, R, xpub), cm.xkey_payload(cm.XPUB[net], L, fpr, idxs[-1], cc, E.H.sec(kk)),
                   lab + "xpub string payload")
    if not public:
        xprv = E.run(leaf.extended_private_key)
        if isinstance(xprv, Raised):
            E.fail(lab + "xprv string payload")
        else:
            E.check_eq(cm.b58_payload(E, R, xprv), cm.xkey_payload(cm.XPRV[net], L, fpr, idxs[-1], cc, b"\x00" + ser(kk, 32)),
                       lab + "xprv string payload")
    return "ok"
