"""C01 -- BIP32 private child derivation matches CKDpriv for every parent and index."""
from sx.runner import Case
from sx.harness import Raised
from props import common as cm, h_bip32
from props.common import N, HARD, ser

ID = "C01"
FUNCTIONS = ["btc_hd_wallet.bip32.PrvKeyNode.ckd", "btc_hd_wallet.bip32.PrvKeyNode.private_key",
             "btc_hd_wallet.bip32.PrvKeyNode.public_key", "btc_hd_wallet.bip32.PubKeyNode.__init__",
             "btc_hd_wallet.bip32.PubKeyNode.fingerprint", "btc_hd_wallet.bip32.PubKeyNode.parent_fingerprint",
             "btc_hd_wallet.bip32.PubKeyNode._serialize", "btc_hd_wallet.bip32.PrvKeyNode.serialize_private",
             "btc_hd_wallet.bip32.PubKeyNode.serialize_public", "btc_hd_wallet.bip32.PubKeyNode.derive_path",
             "btc_hd_wallet.bip32.PrvKeyNode.master_key", "btc_hd_wallet.keys.PrivateKey.__init__",
             "btc_hd_wallet.keys.PublicKey.sec", "btc_hd_wallet.helper.hash160", "btc_hd_wallet.helper.hmac_sha512",
             "btc_hd_wallet.helper.int_to_big_endian", "btc_hd_wallet.helper.big_endian_to_int"]
BOUNDS = {"quick": {"values": "no bound: parent scalar in [1,n-1] (32-byte and 33-byte 00-prefixed form), chain code, depth "
                              "0..254, parent child-number, parsed fingerprint, index 0..2^32-1, all 2^512 PRF outputs, both networks",
                    "path length": "derive_path over symbolic index lists of length 0..3"},
          "thorough": {"values": "as quick", "path length": "0..5"}}
BOUNDS_ADDED = 'leaf kept alone (root and intermediate nodes garbage-collected) via derive_path and via chained ckd, L = 1..2; the same index list object passed twice; invalid children (IL >= n, zero key) raise, also when asked twice'
for _t in ("quick", "thorough"):
    BOUNDS[_t]["histories, lifetimes, injected faults, boundary vectors"] = BOUNDS_ADDED
STUBS = ["HMAC-SHA512, SHA-256, RIPEMD-160 -> uninterpreted functions", "secp256k1 (ecdsa) -> group model (Z_n,+)",
         "Base58Check -> recording summary (payload handed to the encoder is what is asserted)"]
ASSUMPTIONS = ["valid outputs only (IL < n and child key != 0); the complement is C18",
               "ecdsa implements secp256k1 and SEC encoding; the pysecp256k1 branch is not live"]
OUTSIDE = ["HMAC/SHA/secp256k1 arithmetic themselves", "depth-255 parents", "paths longer than 5"]
LEVEL_TEXT = ("Symbolic execution of the real PrvKeyNode.ckd / derive_path / serialisation against an independent "
              "CKDpriv reference: one solver query per asserted field covers all 2^256 x 2^256 x 2^32 x 2^512 "
              "(parent key, chain code, index, PRF output) combinations, including wrap-around sums and leading-zero children.")
LEVEL_NOTE = "Trusted: z3, group model of ecdsa, hash functions abstracted as uninterpreted functions."


def setup_sym(R):
    cm.setup_bip32_sym(R)


def step(E, R, form, testnet):
    return h_bip32.priv_step(E, R, form, testnet, "C01")


def master(E, R, seedlen, testnet):
    return h_bip32.master(E, R, seedlen, testnet, "C01")


def path(E, R, L, testnet):
    """derive_path over a symbolic index list == fold of CKDpriv, node by node"""
    k, kb = cm.sym_scalar(E, "k")
    c = E.bytes("c", 32)
    idxs = [E.bv("i%d" % j, 32) for j in range(L)]
    root = R.bip32.PrvKeyNode(key=kb, chain_code=c, testnet=testnet)
    same_list = list(idxs)
    leaf = E.run(root.derive_path, same_list)
    E.check(len(same_list) == L and all(a is b for a, b in zip(same_list, idxs)), "derive_path leaves the caller's index list unchanged")
    second = E.run(root.derive_path, same_list)
    if not isinstance(leaf, Raised):
        E.check(not isinstance(second, Raised) and E.eq([second.key, second.chain_code, second.depth], [leaf.key, leaf.chain_code, leaf.depth]),
                "a second derivation with the same list object gives the same node data")
    kk, cc = k, c
    fpr = b"\x00" * 4
    for j, i in enumerate(idxs):
        ref = cm.ckd_priv(E, kk, cc, i)
        if ref[0] == "invalid":
            return "invalid@%d" % j
        fpr = cm.fingerprint(E, kk)
        kk, cc = ref
    if isinstance(leaf, Raised):
        E.fail("derive_path returns the node for a valid path")
        return "raised"
    E.check_eq(leaf.key if L else leaf.key, ser(kk, 32) if L else kb, "path: leaf key == folded CKDpriv")
    E.check_eq(leaf.chain_code, cc, "path: leaf chain code")
    E.check_eq(leaf.depth, L, "path: depth == path length")
    if L:
        E.check_eq(leaf.index, idxs[-1], "path: child number == last index")
        E.check_eq(leaf.parent_fingerprint, fpr, "path: parent fingerprint is that of the last parent")
    xprv = E.run(leaf.extended_private_key)
    xpub = E.run(leaf.extended_public_key)
    if isinstance(xprv, Raised) or isinstance(xpub, Raised):
        E.fail("path: leaf serialises")
        return "ser-raised"
    net = "test" if testnet else "main"
    last = idxs[-1] if L else 0
    E.check_eq(cm.b58_payload(E, R, xprv), cm.xkey_payload(cm.XPRV[net], L, fpr, last, cc, b"\x00" + ser(kk, 32)),
               "path: xprv string payload")
    E.check_eq(cm.b58_payload(E, R, xpub), cm.xkey_payload(cm.XPUB[net], L, fpr, last, cc, E.H.sec(kk)),
               "path: xpub string payload")
    return "ok"


def children(E, R):
    from props import C13
    return C13.children_real(E, R, False)


def leaf_only(E, R, L, via, testnet):
    return h_bip32.leaf_only(E, R, L, False, via, testnet)


def cases(tier):
    cs = [Case("children", "children", weight=20, max_paths=5000,
               need=("bulk-generated child equals the single-step derivation of its index",))]
    for form in (32, 33):
        for t in (False, True):
            cs.append(Case("step[form=%d,testnet=%s]" % (form, t), "step", dict(form=form, testnet=t), weight=5,
                           need=("child key == ser256((IL + k_par) mod n), 32 bytes", "child chain code == IR",
                                 "parent fingerprint == HASH160(SEC(k_par*G))[:4]",
                                 "xprv payload == version|depth|fp|ser32(i)|c|00|ser256(k_i)")))
    for L in (16, 64):
        cs.append(Case("master[%d]" % L, "master", dict(seedlen=L, testnet=False), need=("master key == IL",)))
    for L in range(0, (3 if tier == "quick" else 5) + 1):
        cs.append(Case("path[%d]" % L, "path", dict(L=L, testnet=(L % 2 == 1)), weight=10 * (L + 1), max_paths=5000,
                       need=("path: leaf key == folded CKDpriv", "path: xprv string payload")))
    for L, via in ((1, "ckd"), (2, "derive_path"), (2, "ckd")):
        cs.append(Case("leaf_only[%d,%s]" % (L, via), "leaf_only", dict(L=L, via=via, testnet=(via == "ckd" and L == 2)), weight=10 * L,
                       max_paths=5000, need=("leaf kept alone (ancestors garbage-collected): parent fingerprint is that of the last parent",
                                             "leaf kept alone (ancestors garbage-collected): xprv string payload")))
    return cs


def vectors():
    """BIP32 test vector 1 (tests/test_bip32.py): master from seed 000102..0f, then m/0' """
    v = []
    # master key material of vector 1
    k = "e8f32e723decf4051aefac8e2c93c9c5b214313817cdb01a1494b917c8436b35"
    c = "873dff81c02f525623fd1fe5167eac3a55a049de3d314bb42ee227ffed37d508"
    v.append(("step", dict(form=32, testnet=False), dict(k=k, c=c, depth=0, pidx=0, fp="00000000", index=2 ** 31)))
    v.append(("step", dict(form=33, testnet=False), dict(k=k, c=c, depth=0, pidx=0, fp="00000000", index=1)))
    v.append(("path", dict(L=2, testnet=False), dict(k=k, c=c, i0=2 ** 31, i1=1)))
    v.append(("leaf_only", dict(L=2, via="derive_path", testnet=False), dict(k=k, c=c, i0=2 ** 31, i1=1)))
    return v
