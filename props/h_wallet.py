"""Wiring harness around PaperWallet.generate (shared by C06, C13, C14, C15, C16, C20).

Child derivation is replaced by its contract (verified on the real code in C01/C02/C18): the child
of (k, c) at index i has scalar CKDK(k, c, i) in [1, n-1] and chain code CKDC(k, c, i); the public
child of SEC(k*G) at a non-hardened index is SEC(CKDK(k, c, i)*G).  Natively (replay) the real ckd
runs and the reference computes the real CKDpriv."""
from sx.harness import Raised
from sx.instrument import sx_int_from_bytes as ifb, sx_str
from props import common as cm
from props.common import N, HARD, ser, SLIP132

PURPOSES = (44, 49, 84)
ADDR_KIND = {44: "p2pkh", 49: "p2sh_p2wpkh", 84: "p2wpkh"}


def as_bv32(i):
    """a child number given as a mathematical integer (already known to lie in [0, 2^32)) as a bit-vector
    value: one int2bv conversion instead of a definitional byte decomposition inside every hash argument"""
    from sx.values import SxInt
    import z3
    if isinstance(i, SxInt) and not i.is_bv:
        lo = max(i.lo, 0) if i.lo is not None else 0
        hi = min(i.hi, 2 ** 32 - 1) if i.hi is not None else 2 ** 32 - 1
        return SxInt.bv(z3.ZeroExt(1, z3.Int2BV(i.e, 32)), lo, hi)
    return i


def ckd_uf(E, k, c, i):
    """reference child of scalar k / chain code c at index i -> (child scalar, child chain code)"""
    if not E.symbolic:
        r = cm.ckd_priv(E, k, c, i)
        if r[0] == "invalid":
            raise ValueError("invalid child in replay")
        return r
    from sx import env, core
    import z3
    kb = ser(k, 32)
    ib = ser(as_bv32(i), 4)
    ck = env.uf_hash("CKDK", 32, kb, c, ib)
    cc = env.uf_hash("CKDC", 32, kb, c, ib)
    kk = ifb(ck, "big")
    core.CTX.add(z3.ULT(ck.bv(), z3.BitVecVal(N, 256)), ck.bv() != 0)
    env._log("ckd", kb, c, ib, ck, cc)
    return kk, cc


# Hybrid mode: selected ckd calls run the REAL code (so that the invalid-child outcomes of BIP32 -- IL >= n, zero key,
# point at infinity -- exist on the path), all others use the contract.  REAL_CALLS[kind] is a set of 1-based call
# numbers counted from the moment real_calls() was invoked on the current path.
REAL_CALLS = {"prv": set(), "pub": set()}
_COUNT = {"prv": 0, "pub": 0}
_ORIG = {}


def real_calls(prv=(), pub=()):
    REAL_CALLS["prv"], REAL_CALLS["pub"] = set(prv), set(pub)
    _COUNT["prv"] = _COUNT["pub"] = 0


def _reset_real():
    real_calls()


def _maybe_real(kind, self, index):
    if not REAL_CALLS[kind]:
        return None
    _COUNT[kind] += 1
    if _COUNT[kind] in REAL_CALLS[kind] and kind in _ORIG:
        return _ORIG[kind]
    return None


def _prv_ckd(self, index):
    """summary of PrvKeyNode.ckd"""
    from sx import env, core
    import z3
    real = _maybe_real("prv", self, index)
    if real is not None:
        return real(self, index)
    if isinstance(index, int) and not 0 <= index < 2 ** 32 or (not isinstance(index, int) and (bool(index < 0) or bool(index >= 2 ** 32))):
        raise OverflowError("int too big to convert")
    kb = self.key[1:] if len(self.key) == 33 else self.key
    ib = ser(as_bv32(index), 4)
    ck = env.uf_hash("CKDK", 32, kb, self.chain_code, ib)
    cc = env.uf_hash("CKDC", 32, kb, self.chain_code, ib)
    core.CTX.add(z3.ULT(ck.bv(), z3.BitVecVal(N, 256)), ck.bv() != 0)
    env._log("ckd", kb, self.chain_code, ib, ck, cc)
    child = self.__class__(key=ck, chain_code=cc, index=index, depth=self.depth + 1, testnet=self.testnet, parent=self)
    self.children.append(child)
    return child


def _pub_ckd(self, index):
    """summary of PubKeyNode.ckd"""
    from sx import env, core
    import z3
    real = _maybe_real("pub", self, index)
    if real is not None:
        return real(self, index)
    if (index >= HARD) if isinstance(index, int) else bool(index >= HARD):
        raise RuntimeError("failure: hardened child for public ckd")
    if (index < 0) if isinstance(index, int) else bool(index < 0):
        raise OverflowError("can't convert negative int to unsigned")
    d = env._sec_provenance(self.key) if not isinstance(self.key, bytes) else None
    if d is None:
        from sx.core import Unsupported
        raise Unsupported("public ckd summary on SEC bytes of unknown origin")
    kb = ser(d, 32)
    ib = ser(as_bv32(index), 4)
    ck = env.uf_hash("CKDK", 32, kb, self.chain_code, ib)
    cc = env.uf_hash("CKDC", 32, kb, self.chain_code, ib)
    core.CTX.add(z3.ULT(ck.bv(), z3.BitVecVal(N, 256)), ck.bv() != 0)
    env._log("ckd", kb, self.chain_code, ib, ck, cc)
    child = self.__class__(key=env.sec_of(ifb(ck, "big")), chain_code=cc, index=index, depth=self.depth + 1,
                           testnet=self.testnet, parent=self)
    self.children.append(child)
    return child


def install_ckd_summary(R):
    from sx import instrument, core
    _ORIG["prv"] = R.bip32.PrvKeyNode.__dict__["ckd"]
    _ORIG["pub"] = R.bip32.PubKeyNode.__dict__["ckd"]
    if _reset_real not in core.PATH_HOOKS:
        core.PATH_HOOKS.append(_reset_real)
    instrument.register(R.bip32.PrvKeyNode.__dict__["ckd"], _prv_ckd)
    instrument.register(R.bip32.PubKeyNode.__dict__["ckd"], _pub_ckd)


class JsonDump:
    def __init__(self, obj, indent):
        self.obj = obj
        self.indent = indent


def setup_wallet_sym(R, mnem=True):
    cm.setup_bip32_sym(R)
    R.paper_wallet, R.bip85, R.bip39, R.main
    install_ckd_summary(R)
    from sx import instrument, text
    import json
    text.install()
    instrument.register(json.dumps, lambda obj, *a, indent=None, **k: JsonDump(obj, indent))
    if mnem:
        import z3

        def mnem_summary(entropy):
            from sx.instrument import sx_fromhex
            from sx.values import SxBytes
            from sx.env import _bv_of
            b = sx_fromhex(entropy) if not isinstance(entropy, (bytes, SxBytes)) else entropy
            if len(b) * 8 not in (128, 160, 192, 224, 256):
                raise ValueError("incorrect entropy bits")
            return text.SxText(z3.Function("MNEM_%d" % len(b), z3.BitVecSort(8 * len(b)), text.Text)(_bv_of(b)))
        instrument.register(R.bip39.mnemonic_from_entropy, mnem_summary)


def mnem_ref(E, R, b):
    if E.symbolic:
        from sx import text
        from sx.env import _bv_of
        import z3
        return text.SxText(z3.Function("MNEM_%d" % len(b), z3.BitVecSort(8 * len(b)), text.Text)(_bv_of(b)))
    return R.bip39.mnemonic_from_entropy(b.hex())


def path_text(E, root, idxs):
    s = root
    for i in idxs:
        if (i >= HARD) if isinstance(i, int) else bool(i >= HARD):
            s = s + "/" + sx_str(i - HARD) + "'"
        else:
            s = s + "/" + sx_str(i)
    return s


def mk_wallet(E, R, testnet, cls=None, with_text=True):
    k, kb = cm.sym_scalar(E, "k")
    c = E.bytes("c", 32)
    master = R.bip32.PrvKeyNode(key=kb, chain_code=c, testnet=testnet)
    w = (cls or R.paper_wallet.PaperWallet)(master=master, testnet=testnet)
    if with_text:
        if E.symbolic:
            from sx import text
            w.mnemonic = text.fresh("mnemonic")
            w.password = text.fresh("password")
        else:
            w.mnemonic = "legal winner thank year wave sausage worth useful legal winner thank yellow"
            w.password = "pässword"
    return w, k, c


def derive(E, k, c, idxs):
    """reference fold; returns list of (k, c, parent k) per level and the leaf"""
    kk, cc, kp = k, c, None
    for i in idxs:
        kp = kk
        kk, cc = ckd_uf(E, kk, cc, i)
    return kk, cc, kp


def ref_account(E, R, k, c, testnet, P, account, start, ln, check_address):
    coin = (1 if testnet else 0) + HARD
    idxs = [P + HARD, coin, account + HARD]
    ka, ca, kpar = derive(E, k, c, idxs)
    fp = cm.fingerprint(E, kpar)
    keys = {
        "path": path_text(E, "m", idxs),
        "pub": cm.xkey_payload(SLIP132[(P, testnet, "pub")], 3, fp, account + HARD, ca, E.H.sec(ka)),
        "prv": cm.xkey_payload(SLIP132[(P, testnet, "prv")], 3, fp, account + HARD, ca, b"\x00" + ser(ka, 32)),
    }
    kc, cc = ckd_uf(E, ka, ca, 0)
    rows = []
    for j in range(ln):
        i = start + j
        kj, cj = ckd_uf(E, kc, cc, i)
        rows.append(dict(path=path_text(E, "m", idxs + [0, i]), key=kj, sec=E.H.sec(kj),
                         wif=(b"\xef" if testnet else b"\x80") + ser(kj, 32) + b"\x01", kind=ADDR_KIND[P]))
    return keys, rows


def check_generated(E, R, data, k, c, testnet, account, start, ln, mnemonic, password, prefix=""):
    """compare the mapping returned by PaperWallet.generate with the reference"""
    from props.C05 import check_address
    if not isinstance(data, dict):
        E.fail(prefix + "generate returns a mapping")
        return
    E.check(set(data.keys()) == {"MASTER", "BIP85", "BIP44", "BIP49", "BIP84"}, prefix + "top-level sections")
    ms = data.get("MASTER", {})
    E.check(isinstance(ms, dict) and set(ms.keys()) == {"mnemonic", "password"}, prefix + "MASTER fields")
    if isinstance(ms, dict) and set(ms.keys()) == {"mnemonic", "password"}:
        E.check_eq([ms["mnemonic"], ms["password"]], [mnemonic, password], prefix + "MASTER echoes the mnemonic and passphrase")
    for P in PURPOSES:
        sec_ = data.get("BIP%d" % P)
        if not isinstance(sec_, dict) or set(sec_.keys()) != {"account_extended_keys", "groups"}:
            E.fail(prefix + "BIP%d section shape" % P)
            continue
        keys, rows = ref_account(E, R, k, c, testnet, P, account, start, ln, check_address)
        ak = sec_["account_extended_keys"]
        E.check(isinstance(ak, dict) and set(ak.keys()) == {"path", "pub", "prv"}, prefix + "BIP%d account key fields" % P)
        E.check_eq(ak["path"], keys["path"], prefix + "BIP%d account path is m/purpose'/coin'/account'" % P)
        E.check_eq(cm.b58_payload(E, R, ak["pub"]), keys["pub"], prefix + "BIP%d account xpub: SLIP-132 version and fields of the account node" % P)
        E.check_eq(cm.b58_payload(E, R, ak["prv"]), keys["prv"], prefix + "BIP%d account xprv: SLIP-132 version and fields of the account node" % P)
        g = sec_["groups"]
        E.check(isinstance(g, list) and len(g) == ln, prefix + "BIP%d: exactly one row per index of the interval" % P)
        if not isinstance(g, list) or len(g) != ln:
            continue
        for j, (row, ref) in enumerate(zip(g, rows)):
            if not isinstance(row, list) or len(row) != 4:
                E.fail(prefix + "BIP%d row shape [path, address, sec, wif]" % P)
                continue
            E.check_eq(row[0], ref["path"], prefix + "BIP%d row path is .../0/(start+j), in order" % P)
            check_address(E, R, row[1], ref["kind"], testnet, ref["sec"], tag=prefix + "BIP%d row " % P)
            E.check_eq(row[2], ref["sec"].hex(), prefix + "BIP%d row SEC hex is the compressed key at the stated path" % P)
            E.check_eq(cm.b58_payload(E, R, row[3]), ref["wif"], prefix + "BIP%d row WIF decodes to the key at the stated path" % P)


def interval(E, ln):
    start = E.bv("start", 31) if ln == 0 else E.bv("start", 32, hi=2 ** 31 - ln)
    return start, start + ln


# ------------------------------------------------------------------------------- leaf classification
PUB_VERSIONS = {v for (p, t, kind), v in SLIP132.items() if kind == "pub"}
PRV_VERSIONS = {v for (p, t, kind), v in SLIP132.items() if kind == "prv"}
TEST_VERSIONS = {v for (p, t, kind), v in SLIP132.items() if t}


def leaves(obj, path=()):
    """all leaves of nested dict/list structures with their positions"""
    if isinstance(obj, dict):
        for k, v in obj.items():
            yield from leaves(v, path + (k,))
    elif isinstance(obj, (list, tuple)):
        for i, v in enumerate(obj):
            yield from leaves(v, path + (i,))
    else:
        yield path, obj


def _concrete_prefix(b, n):
    out = []
    for x in list(b)[:n]:
        if not isinstance(x, int):
            return None
        out.append(x)
    return bytes(out)


def classify(E, R, leaf):
    """-> (class, network) with class in path | address | sec | xpub | secret:<kind> | none | unknown and
    network in main | test | None.  Classification is by the *term* (what the value is made of), not by where it sits."""
    from sx.values import SxStr, SxChar
    if leaf is None:
        return "none", None
    if E.symbolic:
        from sx import text
        if isinstance(leaf, text.SxText):
            return "secret:text", None
        if isinstance(leaf, cm.B58C):
            p = leaf.payload
            n = len(p)
            if n == 21:
                v = _concrete_prefix(p, 1)
                if v is not None and v[0] in (0x00, 0x05):
                    return "address", "main"
                if v is not None and v[0] in (0x6f, 0xc4):
                    return "address", "test"
                return "unknown", None
            if n == 78:
                v = _concrete_prefix(p, 4)
                if v is None:
                    return "unknown", None
                ver = int.from_bytes(v, "big")
                net = "test" if ver in TEST_VERSIONS else "main"
                if ver in PUB_VERSIONS:
                    # a public serialisation must carry a SEC point, never 00||scalar
                    from sx import env
                    return ("xpub", net) if env._sec_provenance(p[45:]) is not None else ("secret:xpub-with-private-bytes", net)
                if ver in PRV_VERSIONS:
                    return "secret:xprv", net
                return "unknown", None
            if n in (33, 34):
                v = _concrete_prefix(p, 1)
                if v is not None and v[0] in (0x80, 0xef):
                    return "secret:wif", "main" if v[0] == 0x80 else "test"
            return "unknown", None
        if isinstance(leaf, (str, SxStr)):
            s = leaf
            its = list(s.items) if isinstance(s, SxStr) else list(s)
            if len(its) >= 1 and its[0] in ("m", "M") and (len(its) == 1 or its[1] == "/"):
                return "path", _path_network(its)
            if len(its) >= 3 and its[0] in ("b", "t") and its[1] in ("c", "b") and its[2] == "1" and \
                    all(isinstance(i, str) or (isinstance(i, SxChar) and i.alphabet == "qpzry9x8gf2tvdw0s3jn54khce6mua7l") for i in its[3:]):
                return "address", "main" if its[0] == "b" else "test"
            if len(its) == 66 and all((isinstance(i, str) and i in "0123456789abcdef") or
                                      (isinstance(i, SxChar) and i.alphabet == "0123456789abcdef") for i in its):
                from sx import env
                b = R.keys.bytes.fromhex(s) if False else None
                return "sec", None
            if len(its) == 8 and all(isinstance(i, str) or (isinstance(i, SxChar) and i.alphabet in ("0123456789abcdef", "0123456789ABCDEF")) for i in its):
                return "fingerprint", None
            if isinstance(s, str):
                return "text:" + s, None
        return "unknown", None
    # native
    if not isinstance(leaf, str):
        return "unknown", None
    import re
    if re.fullmatch(r"[mM](/\d+'?)*", leaf):
        m = re.fullmatch(r"[mM]/(44|49|84)'/(\d+)'(/.*)?", leaf)
        return "path", (None if not m else "main" if m.group(2) == "0" else "test" if m.group(2) == "1" else "other")
    if re.fullmatch(r"0[23][0-9a-f]{64}", leaf):
        return "sec", None
    if re.fullmatch(r"(bc|tb)1[qpzry9x8gf2tvdw0s3jn54khce6mua7l]{6,87}", leaf):
        return "address", "main" if leaf.startswith("bc") else "test"
    try:
        p = cm.b58_payload(E, R, leaf)
    except Exception:
        p = None
    if p is not None:
        if len(p) == 21 and p[0] in (0, 5, 0x6f, 0xc4):
            return "address", "main" if p[0] in (0, 5) else "test"
        if len(p) == 78:
            ver = int.from_bytes(p[:4], "big")
            net = "test" if ver in TEST_VERSIONS else "main"
            if ver in PUB_VERSIONS:
                return ("xpub", net) if p[45] in (2, 3) else ("secret:xpub-with-private-bytes", net)
            if ver in PRV_VERSIONS:
                return "secret:xprv", net
        if len(p) in (33, 34) and p[0] in (0x80, 0xef):
            return "secret:wif", "main" if p[0] == 0x80 else "test"
    if re.fullmatch(r"[0-9A-Fa-f]{8}", leaf):
        return "fingerprint", None
    return "text:" + leaf, None


def _path_network(its):
    """coin type of a BIP44/49/84 path text: m/P'/c'/..."""
    from sx.values import Numeral
    # split on '/'
    comps = [[]]
    for i in its:
        if i == "/":
            comps.append([])
        else:
            comps[-1].append(i)
    if len(comps) < 3:
        return None
    p = comps[1]
    if "".join(x for x in p if isinstance(x, str)) not in ("44'", "49'", "84'") or len(p) != 3:
        return None
    cpart = comps[2]
    if len(cpart) == 2 and cpart[1] == "'" and cpart[0] in ("0", "1"):
        return "main" if cpart[0] == "0" else "test"
    return "other"
