"""C09 -- key encodings (WIF, SEC) round-trip and out-of-range keys are rejected."""
from sx.runner import Case
from sx.harness import Raised
from sx.instrument import sx_int_from_bytes as ifb
from props import common as cm
from props.common import N, ser

ID = "C09"
FUNCTIONS = ["btc_hd_wallet.keys.PrivateKey.__init__", "btc_hd_wallet.keys.PrivateKey.from_int", "btc_hd_wallet.keys.PrivateKey.parse",
             "btc_hd_wallet.keys.PrivateKey.wif", "btc_hd_wallet.keys.PrivateKey.from_wif", "btc_hd_wallet.keys.PrivateKey.__bytes__",
             "btc_hd_wallet.keys.PrivateKey.__eq__", "btc_hd_wallet.keys.PublicKey.sec", "btc_hd_wallet.keys.PublicKey.parse",
             "btc_hd_wallet.keys.PublicKey.__eq__", "btc_hd_wallet.helper.int_to_big_endian"]
BOUNDS = {"scalars": "every integer (unbounded, negative included) for construction from int; every byte string of length 0..40",
          "wif": "every k in [1,n-1], four flavours; first-character/length lemma over all k and all 2^32 checksums",
          "sec": "every public key (group model), compressed and uncompressed; every 33-byte string for rejection"}
BOUNDS_ADDED = 'an accepted SEC encoding satisfies the curve-membership predicate (model) / the curve equation (replay); an imported key re-exported in all four flavours, positional and keyword; boundary vectors: wrong prefix bytes with a valid x, off-curve (x, y)'
BOUNDS["histories, lifetimes, injected faults, boundary vectors"] = BOUNDS_ADDED
STUBS = ["secp256k1 (ecdsa) -> group model: range and length checks of SigningKey.from_string / from_secret_exponent, SEC validity as an "
         "uninterpreted predicate", "Base58Check -> summary; the first character and length of a WIF string are given by the lemma rows "
         "proved in the wif_lemma cases", "SHA-256 -> uninterpreted"]
ASSUMPTIONS = ["k*G, point decompression and the on-curve test are ecdsa's (not repository code)",
               "Base58 encodes most-significant digit first (C10, bounded to 12 bytes there)"]
OUTSIDE = ["the real encode_base58 on 37/38-byte WIF payloads (digit arithmetic beyond the C10 bound)"]
LEVEL_TEXT = ("Symbolic execution of the real PrivateKey/PublicKey constructors, wif/from_wif and sec/parse in the group model: "
              "acceptance exactly on [1,n-1] for unbounded integers and all byte lengths, WIF payload layout and round trip for all "
              "keys and four flavours, with the first-character heuristic of from_wif justified by an integer lemma over all keys.")
LEVEL_NOTE = "Trusted: z3, group model of ecdsa, Base58Check summary + lemma."


def setup_sym(R):
    cm.setup_bip32_sym(R)


def from_int(E, R, via):
    k = E.int("k")
    f = {"init": R.keys.PrivateKey, "from_int": R.keys.PrivateKey.from_int}[via]
    r = E.run(f, k)
    valid = (k >= 1) & (k < N) if E.symbolic else (1 <= k < N)
    if isinstance(r, Raised):
        E.check(~valid if E.symbolic else not valid, "scalars in [1, n-1] are accepted")
        return "rejected"
    E.check(valid, "scalars 0, negative and >= n are rejected")
    if (bool(valid) if E.symbolic else valid):
        E.check_eq(r.k, ser(k, 32), "PrivateKey.k == ser256(k)")
        E.check_eq(bytes(r) if not E.symbolic else r.__bytes__(), ser(k, 32), "bytes(PrivateKey) == ser256(k)")
        E.check_eq(r.K.sec(), E.H.sec(k), "public key is k*G (compressed SEC)")
        E.check_eq(r.K.sec(False), E.H.sec(k, False), "public key is k*G (uncompressed SEC)")
    return "accepted"


def from_bytes(E, R, n, via):
    b = E.bytes("b", n)
    f = {"init": R.keys.PrivateKey, "parse": R.keys.PrivateKey.parse}[via]
    r = E.run(f, b)
    if n != 32:
        E.check(isinstance(r, Raised), "byte strings of the wrong length are rejected")
        return "rejected-len"
    k = ifb(b, "big")
    valid = (k >= 1) & (k < N) if E.symbolic else (1 <= k < N)
    if isinstance(r, Raised):
        E.check(~valid if E.symbolic else not valid, "32-byte scalars in [1, n-1] are accepted")
        return "rejected"
    E.check(valid, "32-byte strings with value 0 or >= n are rejected")
    E.check_eq(r.k, b, "PrivateKey.k is the 32 bytes given")
    return "accepted"


def wif(E, R, compressed, testnet):
    k, kb = cm.sym_scalar(E, "k")
    pk = R.keys.PrivateKey(kb)
    w = E.run(pk.wif, compressed, testnet)
    if isinstance(w, Raised):
        E.fail("wif() encodes")
        return "raised"
    payload = (b"\xef" if testnet else b"\x80") + ser(k, 32) + (b"\x01" if compressed else b"")
    E.check_eq(cm.b58_payload(E, R, w), payload, "WIF payload == (80|ef) || ser256(k) || (01 if compressed)")
    back = E.run(R.keys.PrivateKey.from_wif, w)
    if isinstance(back, Raised):
        E.fail("from_wif(wif(k)) decodes")
        return "undecodable"
    E.check_eq(back.k, ser(k, 32), "from_wif(wif(k)).k == ser256(k)")
    E.check_eq(back.K.sec(), E.H.sec(k), "from_wif(wif(k)) has public key k*G")
    # a key that was imported from one flavour exports every flavour it is asked for
    for c2 in (True, False):
        for t2 in (False, True):
            w2 = E.run(back.wif, c2, t2)
            if isinstance(w2, Raised):
                E.fail("imported key: wif(compressed, testnet) has the payload of the flavour asked for")
                continue
            E.check_eq(cm.b58_payload(E, R, w2), (b"\xef" if t2 else b"\x80") + ser(k, 32) + (b"\x01" if c2 else b""),
                       "imported key: wif(compressed, testnet) has the payload of the flavour asked for")
            w3 = E.run(back.wif, compressed=c2, testnet=t2)
            E.check_eq(w3 if isinstance(w3, Raised) else cm.b58_payload(E, R, w3), cm.b58_payload(E, R, w2),
                       "keyword and positional flavour arguments agree")
    return "ok"


B58 = 58


def wif_lemma(E, R, prefix, plen):
    """first Base58 character and length of WIF strings and of addresses (rows of common.FIRST_CHAR used by the
    Base58Check summary), for all payload tails and all checksums"""
    if not E.symbolic:
        return "native"
    cm.b58_lemma(E, bytes.fromhex(prefix), plen)
    return "ok"


def sec_roundtrip(E, R, compressed):
    k, kb = cm.sym_scalar(E, "k")
    pk = R.keys.PrivateKey(kb).K
    s = pk.sec(compressed)
    E.check_eq(s, E.H.sec(k, compressed), "sec() is the SEC encoding of k*G")
    pk2 = E.run(R.keys.PublicKey.parse, s)
    if isinstance(pk2, Raised):
        E.fail("PublicKey.parse(sec()) parses")
        return "raised"
    E.check_eq(pk2.sec(compressed), s, "parse(sec(c)).sec(c) == sec(c)")
    E.check_eq(pk2.sec(not compressed), pk.sec(not compressed), "parse(sec(c)) is the same point (other encoding agrees)")
    eq = pk2 == pk
    E.check(eq if isinstance(eq, bool) else eq, "PublicKey.__eq__ agrees")
    return "ok"


def sec_reject(E, R, n):
    b = E.bytes("b", n)
    r = E.run(R.keys.PublicKey.parse, b)
    if n not in (33, 64, 65):
        E.check(isinstance(r, Raised), "SEC strings of impossible length are rejected")
        return "rejected-len"
    if isinstance(r, Raised):
        return "rejected"
    E.check(E.H.sec_valid(b), "an accepted SEC encoding is a point on the curve (off-curve coordinates are rejected)")
    if n == 33:
        p = b[0]
        E.check((p == 2) | (p == 3) if E.symbolic else p in (2, 3), "compressed SEC with a wrong prefix byte is rejected")
        # accepted => the bytes are a valid encoding and re-encode to themselves
        E.check_eq(r.sec(), b, "accepted compressed SEC re-encodes to the same bytes")
    elif n == 65:
        E.check((b[0] == 4) | (b[0] == 6) | (b[0] == 7) if E.symbolic else b[0] in (4, 6, 7),
                "uncompressed SEC with a wrong prefix byte is rejected")
    return "accepted"


def cases(tier):
    cs = []
    for via in ("init", "from_int"):
        cs.append(Case("from_int[%s]" % via, "from_int", dict(via=via),
                       need=("scalars 0, negative and >= n are rejected", "PrivateKey.k == ser256(k)", "scalars in [1, n-1] are accepted")))
    for n in range(0, 41):
        for via in ("init", "parse"):
            cs.append(Case("from_bytes[%d,%s]" % (n, via), "from_bytes", dict(n=n, via=via)))
    for comp in (True, False):
        for t in (False, True):
            cs.append(Case("wif[compressed=%s,testnet=%s]" % (comp, t), "wif", dict(compressed=comp, testnet=t),
                           need=("from_wif(wif(k)).k == ser256(k)",)))

    for (prefix, plen) in sorted(cm.FIRST_CHAR):
        if plen != 78:
            cs.append(Case("b58_lemma[%s,%d]" % (prefix.hex(), plen), "wif_lemma", dict(prefix=prefix.hex(), plen=plen)))
    for comp in (True, False):
        cs.append(Case("sec_roundtrip[%s]" % comp, "sec_roundtrip", dict(compressed=comp), need=("parse(sec(c)).sec(c) == sec(c)",)))
    for n in (0, 1, 32, 33, 34, 64, 65, 66):
        cs.append(Case("sec_reject[%d]" % n, "sec_reject", dict(n=n),
                       need=("an accepted SEC encoding is a point on the curve (off-curve coordinates are rejected)",) if n in (33, 64, 65) else ()))
    return cs


def vectors():
    """tests/test_keys.py"""
    v = []
    for kk in (5003, 2021 ** 5, 0x54321deadbeef, 2 ** 256 - 2 ** 199, 2 ** 256 - 2 ** 201, 0x0dba685b4511dbd3d368e5c4358a1277de9486447af7b3604a69b8d9d8b7889d):
        v.append(("from_int", dict(via="init"), {"k": kk}))
        for comp in (True, False):
            v.append(("wif", dict(compressed=comp, testnet=(kk % 2 == 0)), {"k": "%064x" % kk}))
    v.append(("from_int", dict(via="init"), {"k": 0}))
    v.append(("from_int", dict(via="init"), {"k": N}))
    # boundary vectors (not from /repo/tests): the generator's x coordinate under every prefix byte that is not 02/03,
    # an x with no square root under 02, and off-curve (x, y) in the 64/65-byte forms
    gx = "79be667ef9dcbbac55a06295ce870b07029bfcdb2dce28d959f2815b16f81798"
    gy = "483ada7726a3c4655da4fbfc0e1108a8fd17b448a68554199c47d08ffb10d4b8"
    for pre in ("00", "01", "04", "05", "06", "07", "ff"):
        v.append(("sec_reject", dict(n=33), {"b": pre + gx}))
    v.append(("sec_reject", dict(n=33), {"b": "02" + "%064x" % 5}))
    v.append(("sec_reject", dict(n=65), {"b": "04" + gx + gy[:-1] + "9"}))
    v.append(("sec_reject", dict(n=64), {"b": gx + gy[:-1] + "9"}))
    v.append(("sec_reject", dict(n=65), {"b": "04" + gx + gy}))
    return v
