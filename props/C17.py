"""C17 -- path strings are honoured component by component or rejected."""
from sx.runner import Case
from sx.harness import Raised
from sx.instrument import sx_str, sx_int
from props import common as cm

ID = "C17"
HARD = 2 ** 31
FUNCTIONS = ["btc_hd_wallet.wallet_utils.Bip32Path.parse", "btc_hd_wallet.wallet_utils.Bip32Path.convert_hardened",
             "btc_hd_wallet.wallet_utils.Bip32Path.repr_hardened", "btc_hd_wallet.wallet_utils.Bip32Path.__repr__",
             "btc_hd_wallet.wallet_utils.Bip32Path.__init__", "btc_hd_wallet.wallet_utils.Bip32Path.integrity_check",
             "btc_hd_wallet.wallet_utils.Bip32Path._to_list", "btc_hd_wallet.wallet_utils.Bip32Path.to_list",
             "btc_hd_wallet.wallet_utils.Bip32Path.__eq__", "btc_hd_wallet.wallet_utils.list_get",
             "btc_hd_wallet.base_wallet.BaseWallet.by_path", "btc_hd_wallet.bip32.PubKeyNode.__repr__",
             "btc_hd_wallet.bip32.PubKeyNode.derive_path", "btc_hd_wallet.bip32.PrvKeyNode.ckd (fault cases)"]
BOUNDS = {"identity": "index lists of length 0..5, every component a free integer in [0, 2^32), both roots, both markers",
          "faults": "one fault at each of the five positions: any negative integer (unbounded) with/without marker, any integer "
                    ">= 2^32, any integer >= 2^31 with marker, empty inner token, root token = any string of 0..2 ASCII characters "
                    "other than m/M, junk tokens = any ASCII string of length 1..3 (plus optional marker)",
          "deep": "paths of 6..8 levels with free components (thorough: 6..12)",
          "history": "two lookups on the same wallet with free components (lengths 1..3 each)"}
BOUNDS_ADDED = 'a derivation step that reports an invalid child (injected InvalidKeyError) at level j of an L-level path, private and public: the lookup fails and derives nothing in its place'
BOUNDS["histories, lifetimes, injected faults, boundary vectors"] = BOUNDS_ADDED
STUBS = ["identity/honoured/history cases: PrvKeyNode.ckd replaced (from outside) by a recording child constructor; fault cases run "
         "the real ckd with HMAC as uninterpreted function and the secp256k1 group model"]
ASSUMPTIONS = ["engine model of int(str) for ASCII text (digits, blanks, sign, underscores); non-ASCII digits are outside the bound"]
OUTSIDE = ["non-ASCII characters in path components", "more than one fault per path"]
LEVEL_TEXT = ("Symbolic execution of the real Bip32Path.parse/__repr__/by_path on path text whose numerals are free integers: "
              "parse/format identity, marker equivalence, component-by-component derivation and rejection of every single-fault "
              "path are solver queries over all integers.")
LEVEL_NOTE = "Trusted: z3 (LIA), engine models of str.split/join/format/int; ckd abstracted in the identity cases (verified in C01)."


class Rec:
    calls = []
    fail_at = None       # 1-based call number at which the stand-in reports an invalid child (BIP32: IL >= n, zero key, infinity)
    exc = None


def fake_ckd(self, index):
    """recording stand-in for ckd: same tree shape, no cryptography"""
    if index < 0 or index >= 2 ** 32:
        # contract of the real ckd (ser32 overflows); established on the real code by the neg/big fault cases
        raise OverflowError("int too big to convert")
    Rec.calls.append(index)
    if Rec.fail_at is not None and len(Rec.calls) == Rec.fail_at:
        raise Rec.exc("derived key is invalid (injected)")
    child = self.__class__(key=self.key, chain_code=self.chain_code, index=index, depth=self.depth + 1,
                           testnet=self.testnet, parent=self)
    self.children.append(child)
    return child


def setup_sym(R):
    cm.setup_bip32_sym(R)


def _stub(E, R, on=True):
    """install / remove the recording ckd"""
    if E.symbolic:
        from sx import instrument
        for cls in (R.bip32.PrvKeyNode, R.bip32.PubKeyNode):
            f = cls.__dict__["ckd"]
            if on:
                instrument.register(f, fake_ckd)
            else:
                instrument.unregister(f)
    else:
        for cls in (R.bip32.PrvKeyNode, R.bip32.PubKeyNode):
            if on:
                if "_real_ckd" not in cls.__dict__:
                    cls._real_ckd = cls.__dict__["ckd"]
                cls.ckd = fake_ckd
            elif "_real_ckd" in cls.__dict__:
                cls.ckd = cls._real_ckd
    Rec.calls = []
    Rec.fail_at = None


def invalid_child(E, R, L, j, public):
    """BIP32 declares the child at level j invalid (the derivation step reports InvalidKeyError -- injected by the
    stand-in): the lookup fails, and it does not go on to derive some other index in its place"""
    _stub(E, R, True)
    try:
        top = 2 ** 31 - 1 if public else 2 ** 32 - 1
        l = [E.int("i%d" % k, 0, top) for k in range(L)]
        s = fmt(E, "m", [tok(E, v, "'") for v in l])
        w, master = _wallet(E, R, public)
        Rec.fail_at, Rec.exc = j + 1, R.bip32.InvalidKeyError
        node = E.run(w.by_path, s)
        E.check(isinstance(node, Raised), "a path through an invalid child is rejected, never answered with another node")
        E.check_eq(list(Rec.calls), l[:j + 1], "no derivation of any other index is attempted in place of the invalid child")
        Rec.calls, Rec.fail_at = [], j + 1
        node2 = E.run(master.derive_path, list(l))
        E.check(isinstance(node2, Raised), "derive_path through an invalid child is rejected")
        E.check_eq(list(Rec.calls), l[:j + 1], "no derivation of any other index is attempted in place of the invalid child")
        return "ok"
    finally:
        _stub(E, R, False)


def tok(E, v, marker):
    """text of one component: hardened values are written as (v - 2^31) + marker"""
    if v >= HARD:
        return sx_str(v - HARD) + marker
    return sx_str(v)


def fmt(E, root, comps):
    s = root
    for t in comps:
        s = s + "/" + t
    return s


def chain(node):
    out = []
    while node.parent is not None:
        out.append(node.index)
        node = node.parent
    return list(reversed(out))


def identity(E, R, L, root, marker):
    l = [E.int("i%d" % j, 0, 2 ** 32 - 1) for j in range(L)]
    s = fmt(E, root, [tok(E, v, marker) for v in l])
    p = E.run(R.wallet_utils.Bip32Path.parse, s)
    if isinstance(p, Raised):
        E.fail("well-formed path of up to five levels parses")
        return "raised"
    E.check_eq(p.to_list(), l, "parse(format(l)).to_list() == l")
    E.check(p.private is (root == "m"), "root mark decides private/public")
    canon = fmt(E, root, [tok(E, v, "'") for v in l])
    text = E.run(str, p) if not E.symbolic else E.run(p.__repr__)
    E.check_eq(text, canon, "str(parse(s)) is the canonical ' form")
    p2 = E.run(R.wallet_utils.Bip32Path.parse, text)
    if isinstance(p2, Raised):
        E.fail("canonical text re-parses")
        return "raised2"
    E.check_eq(p2.to_list(), l, "parse(str(p)) == p (components)")
    E.check(p2.private is p.private, "parse(str(p)) == p (root)")
    eq = E.run(lambda: p2 == p)
    E.check(eq is True or (not isinstance(eq, (bool, Raised)) and E.eq(eq, True) is not False), "Bip32Path.__eq__ agrees") \
        if isinstance(eq, bool) else None
    return "ok"


def _wallet(E, R, public=False):
    k, kb = cm.sym_scalar(E, "k")
    c = E.bytes("c", 32)
    if public:
        master = R.bip32.PubKeyNode(key=E.H.sec(k), chain_code=c)
    else:
        master = R.bip32.PrvKeyNode(key=kb, chain_code=c)
    return R.base_wallet.BaseWallet(master=master), master


def honoured(E, R, L, marker):
    _stub(E, R, True)
    try:
        l = [E.int("i%d" % j, 0, 2 ** 32 - 1) for j in range(L)]
        s = fmt(E, "m", [tok(E, v, marker) for v in l])
        w, master = _wallet(E, R)
        node = E.run(w.by_path, s)
        if isinstance(node, Raised):
            E.fail("by_path derives a well-formed path")
            return "raised"
        E.check_eq(list(Rec.calls), l, "by_path issues exactly the derivations l[0], l[1], ...")
        E.check_eq(chain(node), l, "returned node sits at the requested path")
        E.check(len(chain(node)) == L and (node is master) == (L == 0), "depth of the returned node")
        text = E.run(str, node) if not E.symbolic else E.run(node.__repr__)
        E.check_eq(text, fmt(E, "m", [tok(E, v, "'") for v in l]), "str(node) is the canonical path text")
        return "ok"
    finally:
        _stub(E, R, False)


def deep_master(E, R, L):
    """a wallet whose master node is not at depth 0 (built from an account-level extended key): every component
    of the path is still applied below that node"""
    _stub(E, R, True)
    try:
        k, kb = cm.sym_scalar(E, "k")
        c = E.bytes("c", 32)
        depth = E.bv("depth", 8, lo=1, hi=250)
        master = R.bip32.PrvKeyNode(key=kb, chain_code=c, depth=depth, index=E.bv("pidx", 32), parent_fingerprint=E.bytes("fp", 4))
        w = R.base_wallet.BaseWallet(master=master)
        l = [E.int("i%d" % j, 0, 2 ** 32 - 1) for j in range(L)]
        node = E.run(w.by_path, fmt(E, "m", [tok(E, v, "'") for v in l]))
        if isinstance(node, Raised):
            E.fail("by_path derives below a non-root master")
            return "raised"
        E.check_eq(list(Rec.calls), l, "by_path on a non-root master applies every component of the path")
        E.check_eq(chain(node), l, "returned node sits L levels below the master")
        return "ok"
    finally:
        _stub(E, R, False)


def history(E, R, L1, L2):
    """a second lookup on the same wallet is not influenced by the first one"""
    _stub(E, R, True)
    try:
        l1 = [E.int("a%d" % j, 0, 2 ** 32 - 1) for j in range(L1)]
        l2 = [E.int("b%d" % j, 0, 2 ** 32 - 1) for j in range(L2)]
        w, master = _wallet(E, R)
        n1 = E.run(w.by_path, fmt(E, "m", [tok(E, v, "'") for v in l1]))
        Rec.calls = []
        n2 = E.run(w.by_path, fmt(E, "m", [tok(E, v, "'") for v in l2]))
        if isinstance(n1, Raised) or isinstance(n2, Raised):
            E.fail("by_path derives well-formed paths (history)")
            return "raised"
        E.check_eq(chain(n2), l2, "second lookup returns the node at its own path")
        E.check_eq(chain(n1), l1, "first lookup's node is unchanged")
        return "ok"
    finally:
        _stub(E, R, False)


def _others(pos, n=5):
    return [j + 1 for j in range(n) if j != pos]


def fault(E, R, kind, pos, L, jn=None):
    """one faulty component at position pos of an L-level path; the rest are concrete, valid components.
    Real ckd.  Outcome must be an exception from parse or from by_path -- or, where int() is merely
    lenient about a decimal numeral, the derivation with exactly that numeral's value."""
    L = pos + 1                           # the faulty component is the last one; those before it are valid
    comps = [sx_str(j + 1) for j in range(L)]
    expect = [j + 1 for j in range(L)]
    lenient = None
    if kind == "neg":
        v = E.int("v", hi=-1)
        comps[pos] = "-" + sx_str(-v) if E.symbolic else str(v)
    elif kind == "neg'":
        v = E.int("v", hi=-1)
        comps[pos] = ("-" + sx_str(-v) if E.symbolic else str(v)) + "'"
    elif kind == "big":
        v = E.int("v", lo=2 ** 32)
        comps[pos] = sx_str(v)
    elif kind == "big'":
        v = E.int("v", lo=2 ** 31)
        comps[pos] = sx_str(v) + ("'" if pos % 2 == 0 else "h")
    elif kind == "empty":
        comps[pos] = ""
    elif kind == "junk":
        n = jn
        t = E.chars("t", n, None, lo=0, hi=127)
        for ch in t:
            E.assume(ch != "/")          # a slash would make it several tokens, not one junk token
        mk = E.choose("mk", 0, 2)
        comps[pos] = t + ["", "'", "h"][mk]
        lenient = (t, mk)
    s = fmt(E, "m", comps)
    if lenient is not None:
        _stub(E, R, True)
    try:
        w, master = _wallet(E, R)
        node = E.run(w.by_path, s)
        calls = list(Rec.calls)
    finally:
        if lenient is not None:
            _stub(E, R, False)
    if isinstance(node, Raised):
        return "raised"
    if lenient is None:
        E.fail("malformed component (%s) raises instead of deriving" % kind)
        return "accepted!"
    # accepted junk: must be a decimal numeral by int()'s rules, and exactly its value is derived
    t, mk = lenient
    full = t + ["", "'", "h"][mk]
    last = full[-1]
    marked = (last == "'") | (last == "h") if E.symbolic and not (isinstance(last == "'", bool) and isinstance(last == "h", bool)) \
        else (bool(last == "'") or bool(last == "h"))
    if not isinstance(marked, bool):
        marked = bool(marked)
    body = full[:-1] if marked else full
    val = E.run(sx_int if E.symbolic else int, body)
    if isinstance(val, Raised):
        E.fail("non-numeral junk token raises instead of deriving")
        return "accepted-junk!"
    if marked:
        E.check((val >= 0) & (val < HARD) if E.symbolic else 0 <= val < HARD, "marked junk numeral within 0..2^31-1")
        expect[pos] = val + HARD
    else:
        E.check((val >= 0) & (val < 2 ** 32) if E.symbolic else 0 <= val < 2 ** 32, "junk numeral within 0..2^32-1")
        expect[pos] = val
    E.check_eq(calls, expect, "lenient numeral derives exactly its value")
    return "lenient"


def empty_inner(E, R, pos, L):
    """an empty component followed by at least one non-empty component"""
    comps = [sx_str(E.int("i%d" % j, 0, 2 ** 31 - 1)) for j in range(L)]
    comps[pos] = ""
    r = E.run(R.wallet_utils.Bip32Path.parse, fmt(E, "m", comps))
    E.check(isinstance(r, Raised), "empty inner component raises")
    _stub(E, R, True)
    try:
        w, master = _wallet(E, R)
        r2 = E.run(w.by_path, fmt(E, "m", comps))
    finally:
        _stub(E, R, False)
    E.check(isinstance(r2, Raised), "empty inner component raises (by_path)")
    return "raised"


def _same_node(E, a, b, label):
    if isinstance(b, Raised) or isinstance(a, Raised):
        E.check(isinstance(a, Raised) == isinstance(b, Raised), label)
        return
    E.check_eq([a.key, a.chain_code, a.depth, a.index], [b.key, b.chain_code, b.depth, b.index], label)


def badroot(E, R, n):
    t = E.chars("t", n, None, lo=0, hi=127) if n else ""
    if n == 1:
        E.assume(~((t[0] == "m") | (t[0] == "M")) if E.symbolic else t not in ("m", "M"))
    s = fmt(E, t, ["0", "1'"])
    r = E.run(R.wallet_utils.Bip32Path.parse, s)
    if isinstance(r, Raised):
        return "raised"
    # a root token containing '/' re-splits: accepted only if the first piece is m / M
    first = s.split("/")[0]
    E.check((first == "m") | (first == "M") if E.symbolic and not isinstance(first == "m", bool) else first in ("m", "M"),
            "wrong root marker raises")
    return "accepted"


def deep(E, R, L):
    _stub(E, R, True)
    try:
        l = [E.int("i%d" % j, 0, 2 ** 31 - 1) for j in range(L)]
        s = fmt(E, "m", [sx_str(v) for v in l])
        w, master = _wallet(E, R)
        node = E.run(w.by_path, s)
        if isinstance(node, Raised):
            return "raised"
        E.check_eq(chain(node), l, "paths deeper than five levels are honoured in full or rejected")
        return "accepted"
    finally:
        _stub(E, R, False)


def cases(tier):
    cs = []
    for L in range(0, 6):
        for root in ("m", "M"):
            for marker in ("'", "h"):
                if L == 0 and marker == "h":
                    continue
                cs.append(Case("identity[%d,%s,%s]" % (L, root, marker), "identity", dict(L=L, root=root, marker=marker),
                               need=("parse(format(l)).to_list() == l",), weight=2 ** L, max_paths=100000))
    for L in range(0, 6):
        cs.append(Case("honoured[%d]" % L, "honoured", dict(L=L, marker="'" if L % 2 else "h"), weight=2 ** L,
                       need=("by_path issues exactly the derivations l[0], l[1], ...",), max_paths=100000))
    for L in (1, 2, 3, 5):
        cs.append(Case("deep_master[%d]" % L, "deep_master", dict(L=L), weight=2 ** L, max_paths=100000,
                       need=("by_path on a non-root master applies every component of the path",)))
    for L1, L2 in ((1, 1), (2, 2), (3, 2), (2, 3), (1, 3)):
        cs.append(Case("history[%d,%d]" % (L1, L2), "history", dict(L1=L1, L2=L2), weight=2 ** (L1 + L2), max_paths=100000,
                       need=("second lookup returns the node at its own path",)))
    for kind in ("neg", "neg'", "big", "big'", "empty", "junk"):
        for pos in range(5):
            if kind == "empty":
                continue          # handled by empty_inner (needs components after the empty one)
            if kind == "junk":
                for jn in (1, 2, 3):
                    cs.append(Case("fault[junk%d@%d]" % (jn, pos), "fault", dict(kind=kind, pos=pos, L=5, jn=jn),
                                   weight=40 * jn, max_paths=200000))
                continue
            cs.append(Case("fault[%s@%d]" % (kind, pos), "fault", dict(kind=kind, pos=pos, L=5), weight=5, max_paths=100000))
    for L in range(2, 6):
        for pos in range(0, L - 1):
            cs.append(Case("empty[%d of %d]" % (pos, L), "empty_inner", dict(pos=pos, L=L), need=("empty inner component raises",)))
    for n in (0, 1, 2):
        cs.append(Case("badroot[%d]" % n, "badroot", dict(n=n)))
    for L in (range(6, 9) if tier == "quick" else range(6, 13)):
        cs.append(Case("deep[%d]" % L, "deep", dict(L=L)))
    for (L, j, pub) in ((1, 0, False), (2, 1, False), (3, 1, True), (3, 2, False), (2, 0, True)):
        cs.append(Case("invalid_child[L=%d,at=%d,public=%s]" % (L, j, pub), "invalid_child", dict(L=L, j=j, public=pub),
                       need=("a path through an invalid child is rejected, never answered with another node",)))
    return cs


def vectors():
    """strings from tests/test_wallet_utils.py"""
    v = []
    v.append(("identity", dict(L=5, root="m", marker="'"), {"i0": 44 + HARD, "i1": HARD, "i2": HARD, "i3": 0, "i4": 7}))
    v.append(("identity", dict(L=3, root="M", marker="h"), {"i0": 84 + HARD, "i1": 1 + HARD, "i2": 2 ** 32 - 1}))
    v.append(("honoured", dict(L=3, marker="'"), {"i0": 49 + HARD, "i1": 1, "i2": 2 ** 31 - 1, "k": "11" * 32, "c": "22" * 32}))
    return v
