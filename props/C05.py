"""C05 -- every address is the standard encoding of the right script on the right network;
script templates; HASH160 = RIPEMD160(SHA256(x)) with the bundled pure-Python RIPEMD-160 verified
against an independent reference for every state/block and every message length in the bound."""
from sx.runner import Case
from sx.harness import Raised
from sx.instrument import sx_int_from_bytes as ifb
from props import common as cm
from props import C11 as b32
from spec import ripemd as ref_rmd

ID = "C05"
FUNCTIONS = ["btc_hd_wallet.ripemd.ripemd160", "btc_hd_wallet.ripemd.compress", "btc_hd_wallet.ripemd.rol",
             "btc_hd_wallet.ripemd.fi", "btc_hd_wallet.helper.hash160", "btc_hd_wallet.helper.sha256",
             "btc_hd_wallet.helper.h160_to_p2pkh_address", "btc_hd_wallet.helper.h160_to_p2sh_address",
             "btc_hd_wallet.helper.h160_to_p2wpkh_address", "btc_hd_wallet.helper.h256_to_p2wsh_address",
             "btc_hd_wallet.keys.PublicKey.h160", "btc_hd_wallet.keys.PublicKey.address", "btc_hd_wallet.keys.PublicKey.sec",
             "btc_hd_wallet.base_wallet.BaseWallet.p2pkh_address", "btc_hd_wallet.base_wallet.BaseWallet.p2wpkh_address",
             "btc_hd_wallet.base_wallet.BaseWallet.p2sh_p2wpkh_address", "btc_hd_wallet.base_wallet.BaseWallet.p2wsh_address",
             "btc_hd_wallet.base_wallet.BaseWallet.p2sh_p2wsh_address", "btc_hd_wallet.script.p2wsh_script",
             "btc_hd_wallet.script.p2wpkh_script", "btc_hd_wallet.script.p2sh_script", "btc_hd_wallet.script.p2pkh_script",
             "btc_hd_wallet.script.Script.raw_serialize", "btc_hd_wallet.bech32.encode"]
BOUNDS = {
    "quick": {"ripemd compress": "all 2^160 states x 2^512 blocks (one equivalence)",
              "ripemd160(data)": "every message length 0..130 bytes, content symbolic (all 64 padding residues, 1-3 blocks)",
              "addresses": "all secret scalars / public keys (group model), both networks, five kinds, private and watch-only nodes, "
                           "compressed and uncompressed P2PKH"},
    "thorough": {"ripemd160(data)": "every length 0..1024", "addresses": "as quick", "ripemd compress": "as quick"}}
BOUNDS_ADDED = "node whose network flag differs from the wallet's; private node holding the 33-byte form 00||k"
for _t in ("quick", "thorough"):
    BOUNDS[_t]["histories, lifetimes, injected faults, boundary vectors"] = BOUNDS_ADDED
STUBS = ["SHA-256 -> uninterpreted function", "in the address-wiring cases RIPEMD-160 is replaced by an uninterpreted function "
         "(its real code is verified in the ripemd cases)", "secp256k1 -> group model", "Base58Check -> recording summary"]
ASSUMPTIONS = ["reference RIPEMD-160 (spec/ripemd.py) is checked against OpenSSL's ripemd160 natively on every run"]
OUTSIDE = ["SHA-256 itself", "RIPEMD-160 inputs longer than 1024 bytes", "Base58 digit arithmetic on 25-byte payloads (C10 bound + lemmas)"]
LEVEL_TEXT = ("Equivalence of the real ripemd.compress/ripemd160 with an independent reference for all inputs in the "
              "bound (decided by z3 rewriting/bit-blasting), plus wiring harnesses in which every address of every kind is "
              "decoded by a reference Bech32/Base58Check-payload decoder and compared with the prescribed script hash.")
LEVEL_NOTE = "Trusted: z3, group model of ecdsa, SHA-256 abstracted, reference RIPEMD-160 validated against OpenSSL."


def setup_sym(R):
    cm.setup_bip32_sym(R)


# ------------------------------------------------------------------------------- RIPEMD-160
def compress_equiv(E, R):
    h = [E.bv("h%d" % i, 32) for i in range(5)]
    block = E.bytes("block", 64)
    got = R.ripemd.compress(*h, block)
    ref = ref_rmd.compress(tuple(h), block, ifb)
    for i in range(5):
        E.check_eq(got[i] & 0xffffffff, ref[i] & 0xffffffff, "compress word %d == reference" % i)
    return "ok"


def ripemd_len(E, R, lo, hi):
    n = E.choose("n", lo, hi)
    data = E.bytes("data", n)
    got = E.run(R.ripemd.ripemd160, data)
    if isinstance(got, Raised):
        E.fail("ripemd160 computes for every length")
        return "raised"
    ref = ref_rmd.ripemd160(data, ifb)
    E.check_eq(got, ref, "ripemd160(data) == reference RIPEMD-160")
    return n


def hash160_wiring(E, R, n):
    data = E.bytes("data", n)
    if E.symbolic:
        from sx import instrument, env
        instrument.unregister(R.ripemd.ripemd160)          # this case runs the real RIPEMD-160 inside hash160
        try:
            got = E.run(R.helper.hash160, data)
        finally:
            instrument.register(R.ripemd.ripemd160, env.ripemd160_uf)
    else:
        got = E.run(R.helper.hash160, data)
    ref = ref_rmd.ripemd160(E.H.sha256(data), ifb)
    E.check_eq(got, ref, "hash160(x) == RIPEMD160(SHA256(x))")
    return "ok"


# ------------------------------------------------------------------------------- scripts
def templates(E, R):
    h20 = E.bytes("h20", 20)
    h32 = E.bytes("h32", 32)
    S = R.script
    E.check_eq(S.p2wpkh_script(h20).raw_serialize(), b"\x00\x14" + h20, "p2wpkh script == 0014<h160>")
    E.check_eq(S.p2wsh_script(h32).raw_serialize(), b"\x00\x20" + h32, "p2wsh script == 0020<h256>")
    E.check_eq(S.p2sh_script(h20).raw_serialize(), b"\xa9\x14" + h20 + b"\x87", "p2sh script == a914<h160>87")
    E.check_eq(S.p2pkh_script(h20).raw_serialize(), b"\x76\xa9\x14" + h20 + b"\x88\xac", "p2pkh script == 76a914<h160>88ac")
    return "ok"


# ------------------------------------------------------------------------------- addresses
def _segwit(E, R, s, hrp):
    """decode a produced segwit address with the reference decoder"""
    if isinstance(s, Raised) or s is None:
        return None
    return b32.ref_decode(E, hrp, list(s))


def expected(E, kind, testnet, sec):
    H = E.H
    if kind == "p2pkh":
        return "b58", (b"\x6f" if testnet else b"\x00") + H.hash160(sec)
    if kind == "p2sh_p2wpkh":
        return "b58", (b"\xc4" if testnet else b"\x05") + H.hash160(b"\x00\x14" + H.hash160(sec))
    ws = b"\x51\x21" + sec + b"\x51\xae"
    if kind == "p2sh_p2wsh":
        return "b58", (b"\xc4" if testnet else b"\x05") + H.hash160(b"\x00\x20" + H.sha256(ws))
    if kind == "p2wpkh":
        return "segwit", ("tb" if testnet else "bc", 0, H.hash160(sec))
    if kind == "p2wsh":
        return "segwit", ("tb" if testnet else "bc", 0, H.sha256(ws))
    raise ValueError(kind)


def check_address(E, R, got, kind, testnet, sec, tag=""):
    if isinstance(got, Raised) or got is None:
        E.fail(tag + kind + ": address produced")
        return
    enc, exp = expected(E, kind, testnet, sec)
    if enc == "b58":
        E.check_eq(cm.b58_payload(E, R, got), exp, tag + kind + ": Base58Check payload == version byte || script hash")
    else:
        hrp, ver, prog = exp
        E.check_eq(got[:3], hrp + "1", tag + kind + ": hrp by network")
        d = _segwit(E, R, got, hrp)
        if d is None:
            E.fail(tag + kind + ": address is valid BIP173 for the wallet's hrp")
            return
        E.check_eq([d[0], list(d[1])], [ver, list(prog)], tag + kind + ": witness version 0 and the script hash as program")


KINDS = ("p2pkh", "p2wpkh", "p2sh_p2wpkh", "p2wsh", "p2sh_p2wsh")


def address(E, R, kind, testnet, watch, node_flag=None, key33=False):
    """node_flag: network flag of the node object when it differs from the wallet's (a node parsed with the default flag
    and handed to a wallet of the other network): the wallet's own network decides the address prefix"""
    k, kb = cm.sym_scalar(E, "k")
    c = E.bytes("c", 32)
    nf = testnet if node_flag is None else node_flag
    if watch:
        node = R.bip32.PubKeyNode(key=E.H.sec(k), chain_code=c, testnet=nf)
    else:
        # key33: the form a node parsed from an extended private key holds (00 || k)
        node = R.bip32.PrvKeyNode(key=(b"\x00" + kb) if key33 else kb, chain_code=c, testnet=nf)
    w = R.base_wallet.BaseWallet(master=node, testnet=testnet)
    got = E.run(getattr(w, kind + "_address"), node)
    check_address(E, R, got, kind, testnet, E.H.sec(k))
    return "ok"


def pubkey_address(E, R, addr_type, compressed, testnet):
    k, kb = cm.sym_scalar(E, "k")
    pk = R.keys.PrivateKey(kb)
    got = E.run(pk.K.address, compressed, testnet, addr_type)
    sec = E.H.sec(k, compressed)
    check_address(E, R, got, addr_type, testnet, sec, tag="PublicKey.address ")
    E.check_eq(pk.K.h160(compressed), E.H.hash160(sec), "PublicKey.h160 == HASH160(SEC)")
    return "ok"


def from_uncompressed(E, R, testnet, via):
    """a key object obtained from *uncompressed* data (65-byte SEC / uncompressed WIF) still gives the standard
    addresses of the compressed key by default, and the uncompressed ones only on request"""
    k, kb = cm.sym_scalar(E, "k")
    if via == "sec":
        pub = E.run(R.keys.PublicKey.parse, E.H.sec(k, False))
    else:
        w = R.keys.PrivateKey(kb).wif(False, testnet)
        prv = E.run(R.keys.PrivateKey.from_wif, w)
        pub = prv if isinstance(prv, Raised) else prv.K
    if isinstance(pub, Raised):
        E.fail("uncompressed key data parses")
        return "raised"
    sec_c, sec_u = E.H.sec(k, True), E.H.sec(k, False)
    E.check_eq(pub.sec(), sec_c, "sec() defaults to the compressed encoding whatever the key was parsed from")
    E.check_eq(pub.h160(), E.H.hash160(sec_c), "h160() defaults to the compressed key")
    E.check_eq(pub.h160(False), E.H.hash160(sec_u), "h160(compressed=False) is the uncompressed key's hash")
    for at in ("p2pkh", "p2wpkh"):
        check_address(E, R, E.run(lambda: pub.address(testnet=testnet, addr_type=at)), at, testnet, sec_c, tag="default ")
    check_address(E, R, E.run(lambda: pub.address(False, testnet, "p2pkh")), "p2pkh", testnet, sec_u, tag="uncompressed ")
    if via == "sec":
        node = R.bip32.PubKeyNode(key=E.H.sec(k, False), chain_code=E.bytes("c", 32), testnet=testnet)
        wl = R.base_wallet.BaseWallet(master=node, testnet=testnet)
        for kind in KINDS:
            check_address(E, R, E.run(getattr(wl, kind + "_address"), node), kind, testnet, sec_c, tag="node with uncompressed key bytes ")
    return "ok"


def b58_zeros(E, R, zeros):
    """the real Base58Check encoder on a mainnet P2PKH payload whose hash starts with zero bytes"""
    from props import C10
    from sx import env
    old = env.INT_MODE_HASHES
    env.INT_MODE_HASHES = True
    try:
        return C10.encode_real(E, R, "00" * zeros, 21)
    finally:
        env.INT_MODE_HASHES = old


def two_nodes(E, R, kind, testnet):
    """the same wallet object asked for two different nodes with identical path text: each address
    commits to its own node's key"""
    k1, kb1 = cm.sym_scalar(E, "k")
    k2, kb2 = cm.sym_scalar(E, "k2")
    c = E.bytes("c", 32)
    n1 = R.bip32.PrvKeyNode(key=kb1, chain_code=c, testnet=testnet)
    n2 = R.bip32.PrvKeyNode(key=kb2, chain_code=c, testnet=testnet)
    w = R.base_wallet.BaseWallet(master=n1, testnet=testnet)
    f = getattr(w, kind + "_address")
    a1 = E.run(f, n1)
    a2 = E.run(f, n2)
    a1b = E.run(f, n1)
    check_address(E, R, a1, kind, testnet, E.H.sec(k1), tag="first node ")
    check_address(E, R, a2, kind, testnet, E.H.sec(k2), tag="second node ")
    check_address(E, R, a1b, kind, testnet, E.H.sec(k1), tag="first node again ")
    return "ok"


def cases(tier):
    q = tier == "quick"
    cs = [Case("compress", "compress_equiv", need=("compress word 0 == reference", "compress word 4 == reference"))]
    top = 130 if q else 1024
    step = 8 if q else 16
    for lo in range(0, top + 1, step):
        cs.append(Case("ripemd[%d..%d]" % (lo, min(lo + step - 1, top)), "ripemd_len", dict(lo=lo, hi=min(lo + step - 1, top)),
                       need=("ripemd160(data) == reference RIPEMD-160",), weight=1 + lo // 64))
    for n in (0, 33, 65, 22, 34):
        cs.append(Case("hash160[%d]" % n, "hash160_wiring", dict(n=n), need=("hash160(x) == RIPEMD160(SHA256(x))",)))
    cs.append(Case("templates", "templates", need=("p2pkh script == 76a914<h160>88ac",)))
    for kind in KINDS:
        for t in (False, True):
            for watch in (False, True):
                cs.append(Case("addr[%s,testnet=%s,watch=%s]" % (kind, t, watch), "address", dict(kind=kind, testnet=t, watch=watch),
                               weight=5))
            cs.append(Case("addr[%s,testnet=%s,key=00||k]" % (kind, t), "address", dict(kind=kind, testnet=t, watch=False, key33=True), weight=5))
            cs.append(Case("addr[%s,testnet=%s,node flag=%s]" % (kind, t, not t), "address",
                           dict(kind=kind, testnet=t, watch=(kind in ("p2wsh", "p2pkh")), node_flag=not t), weight=5))
            cs.append(Case("two_nodes[%s,testnet=%s]" % (kind, t), "two_nodes", dict(kind=kind, testnet=t), weight=8))
    for t in (False, True):
        for via in ("sec", "wif"):
            cs.append(Case("from_uncompressed[%s,testnet=%s]" % (via, t), "from_uncompressed", dict(testnet=t, via=via), weight=8,
                           need=("sec() defaults to the compressed encoding whatever the key was parsed from",)))
    for z in (2, 3):
        cs.append(Case("b58_zeros[%d]" % z, "b58_zeros", dict(zeros=z), weight=20,
                       need=("real-size encode: leading '1's == leading zero bytes",)))
    for at in ("p2pkh", "p2wpkh"):
        for comp in (True, False):
            for t in (False, True):
                cs.append(Case("pubkey[%s,compressed=%s,testnet=%s]" % (at, comp, t), "pubkey_address",
                               dict(addr_type=at, compressed=comp, testnet=t), weight=5))
    return cs


def vectors():
    """RIPEMD-160 vectors of the (uncollected) unittest in ripemd.py; address vectors from tests/test_keys.py"""
    v = []
    for msg in (b"", b"a", b"abc", b"message digest", b"abcdefghijklmnopqrstuvwxyz", b"1234567890" * 8):
        v.append(("ripemd_len", dict(lo=0, hi=130), {"n": len(msg), "data": msg.hex()}))
    k = "%064x" % 0x12345deadbeef
    v.append(("pubkey_address", dict(addr_type="p2pkh", compressed=True, testnet=False), {"k": k}))
    v.append(("pubkey_address", dict(addr_type="p2wpkh", compressed=True, testnet=True), {"k": k}))
    v.append(("address", dict(kind="p2sh_p2wsh", testnet=True, watch=False), {"k": k, "c": "11" * 32}))
    return v
