"""C07 -- extended keys round-trip through serialisation for all fields and the 12 versions."""
from sx.runner import Case
from sx.harness import Raised
from sx.instrument import sx_int_from_bytes as ifb
from props import common as cm
from props.common import N, ser, SLIP132

ID = "C07"
FUNCTIONS = ["btc_hd_wallet.bip32.PubKeyNode.parse", "btc_hd_wallet.bip32.PubKeyNode._parse", "btc_hd_wallet.bip32.PubKeyNode._serialize",
             "btc_hd_wallet.bip32.PubKeyNode.serialize_public", "btc_hd_wallet.bip32.PubKeyNode.extended_public_key",
             "btc_hd_wallet.bip32.PubKeyNode.__eq__", "btc_hd_wallet.bip32.PubKeyNode.is_master",
             "btc_hd_wallet.bip32.PrvKeyNode.serialize_private", "btc_hd_wallet.bip32.PrvKeyNode.extended_private_key",
             "btc_hd_wallet.bip32.PrvKeyNode.private_key", "btc_hd_wallet.wallet_utils.Version.parse",
             "btc_hd_wallet.wallet_utils.Version.valid_version", "btc_hd_wallet.wallet_utils.Version.bip",
             "btc_hd_wallet.wallet_utils.Version.__int__", "btc_hd_wallet.base_wallet.BaseWallet.from_extended_key"]
BOUNDS = {"payloads": "every 78-byte payload valid per BIP32: depth 0..255, any fingerprint/child number/chain code, private scalar in "
                      "[1,n-1] or a model-valid compressed point; depth 0 => fingerprint 0 and child number 0",
          "versions": "all 12 constants exhaustively; every other 32-bit version (one query) for the refusal",
          "forms": "bytes, stream, string (through the Base58Check summary)"}
BOUNDS_ADDED = 'two extended public keys P and -P (same x, other parity) parsed and re-serialised in one process; boundary vectors: unregistered versions next to registered ones'
BOUNDS["histories, lifetimes, injected faults, boundary vectors"] = BOUNDS_ADDED
STUBS = ["Base58Check -> summary (payload in, payload out); 111-character length by the integer lemma in the length case",
         "secp256k1 -> group model", "SHA-256/RIPEMD-160 -> uninterpreted"]
ASSUMPTIONS = ["payloads with depth 0 but non-zero fingerprint/child number are not valid BIP32 serialisations and are excluded"]
OUTSIDE = ["Base58 digit arithmetic on 82-byte strings (C10 bound + length lemma)"]
LEVEL_TEXT = ("Symbolic execution of the real parse/_parse/_serialize/extended_*_key/Version code on a fully symbolic 78-byte payload "
              "for each of the 12 versions and three input forms: parse-then-serialise is the identity, all fields are preserved, "
              "public serialisations contain only SEC(k*G), unknown versions are refused (one query over 2^32-12 values).")
LEVEL_NOTE = "Trusted: z3, group model, Base58Check summary."

VERSIONS = sorted(SLIP132.items(), key=lambda kv: kv[1])


def setup_sym(R):
    cm.setup_bip32_sym(R)


def mk_payload(E, version, kind):
    k, kb = cm.sym_scalar(E, "k")
    depth = E.bv("depth", 8)
    fp = E.bytes("fp", 4)
    idx = E.bv("index", 32)
    c = E.bytes("c", 32)
    # BIP32: a depth-0 key is a master key: zero fingerprint and child number
    if E.symbolic:
        import z3
        from sx.values import z3bool
        E.assume(z3.Implies(z3bool(depth == 0), z3.And(z3bool(idx == 0), fp.eq_expr(b"\x00" * 4))))
    else:
        E.assume(depth != 0 or (idx == 0 and fp == b"\x00" * 4))
    keydata = b"\x00" + kb if kind == "prv" else E.H.sec(k)
    return dict(k=k, kb=kb, depth=depth, fp=fp, idx=idx, c=c, keydata=keydata,
                payload=cm.xkey_payload(version, depth, fp, idx, c, keydata))


def _wrap(E, payload, form):
    if form == "bytes":
        return payload
    if form == "stream":
        return E.reader(payload)
    return cm.B58C(payload) if E.symbolic else cm.b58check_encode(payload)


def roundtrip(E, R, purpose, testnet, kind, form):
    version = SLIP132[(purpose, testnet, kind)]
    p = mk_payload(E, version, kind)
    cls = R.bip32.PrvKeyNode if kind == "prv" else R.bip32.PubKeyNode
    node = E.run(cls.parse, _wrap(E, p["payload"], form), testnet)
    if isinstance(node, Raised):
        E.fail("valid serialised extended key parses")
        return "raised"
    E.check_eq([node.depth, node.index, node.chain_code, node.key, node.parsed_version, node.testnet],
               [p["depth"], p["idx"], p["c"], p["keydata"], version, testnet], "all fields survive parsing")
    E.check_eq(node.parent_fingerprint, p["fp"], "parent fingerprint survives parsing")
    ser_fn = node.extended_private_key if kind == "prv" else node.extended_public_key
    s = E.run(ser_fn, version)
    if isinstance(s, Raised):
        E.fail("parsed node re-serialises")
        return "ser-raised"
    E.check_eq(cm.b58_payload(E, R, s), p["payload"], "serialise(parse(x)) == x under the same version")
    node2 = E.run(cls.parse, s, testnet)
    if isinstance(node2, Raised):
        E.fail("re-serialised key parses again")
        return "raised2"
    eq = E.run(lambda: node2 == node)
    E.check(eq if not isinstance(eq, Raised) else False, "re-parsed node equals the first")
    # default version follows the node's network flag (xprv/xpub or tprv/tpub)
    d = E.run(ser_fn)
    if not isinstance(d, Raised):
        dv = SLIP132[(44, testnet, kind)]
        E.check_eq(cm.b58_payload(E, R, d)[:4], ser(dv, 4), "default version is x/t by the node's network")
    if kind == "prv":
        xpub = E.run(node.extended_public_key, SLIP132[(purpose, testnet, "pub")])
        if isinstance(xpub, Raised):
            E.fail("private node yields an extended public key")
            return "pub-raised"
        E.check_eq(cm.b58_payload(E, R, xpub),
                   cm.xkey_payload(SLIP132[(purpose, testnet, "pub")], p["depth"], p["fp"], p["idx"], p["c"], E.H.sec(p["k"])),
                   "serialised extended public key carries SEC(k*G) and no private byte")
    return "ok"


def two_parities(E, R, form, order):
    """two extended public keys handled in one process whose keys are P and -P (same x coordinate, other parity byte):
    each one re-serialises with its own key"""
    version = SLIP132[(44, False, "pub")]
    k, kb = cm.sym_scalar(E, "k")
    keyA = E.H.sec(k)
    if E.symbolic:
        from sx.values import SxBytes
        keyB = SxBytes([keyA[0] ^ 1]) + keyA[1:]
    else:
        keyB = bytes([keyA[0] ^ 1]) + keyA[1:]
    c = E.bytes("c", 32)
    keys = [keyA, keyB] if order == "P,-P" else [keyB, keyA]
    payloads = [cm.xkey_payload(version, 3, b"\x0a\x0b\x0c\x0d", 9, c, kd) for kd in keys]
    outs = []
    for pl in payloads:
        node = E.run(R.bip32.PubKeyNode.parse, _wrap(E, pl, form))
        if isinstance(node, Raised):
            E.fail("valid serialised extended public key parses (both y parities of an x on the curve)")
            return "raised"
        outs.append(E.run(node.extended_public_key))
    for pl, s in zip(payloads, outs):
        if isinstance(s, Raised):
            E.fail("keys with equal x coordinate: each node re-serialises with its own key")
            continue
        E.check_eq(cm.b58_payload(E, R, s), pl, "keys with equal x coordinate: each node re-serialises with its own key")
    return "ok"


def stream_offset(E, R, kind, j):
    """parsing from a stream reads from the stream's current position: j bytes already consumed, then two keys back to back"""
    version = SLIP132[(44, False, kind)]
    p = mk_payload(E, version, kind)
    junk = E.bytes("junk", j)
    second = cm.xkey_payload(version, 7, b"\x01\x02\x03\x04", 5, E.bytes("c2", 32), p["keydata"])
    rd = E.reader(junk + p["payload"] + second)
    rd.read(j)
    cls = R.bip32.PrvKeyNode if kind == "prv" else R.bip32.PubKeyNode
    n1 = E.run(cls.parse, rd)
    n2 = E.run(cls.parse, rd)
    if isinstance(n1, Raised) or isinstance(n2, Raised):
        E.fail("keys parse from a stream")
        return "raised"
    E.check_eq([n1.depth, n1.index, n1.chain_code, n1.key], [p["depth"], p["idx"], p["c"], p["keydata"]],
               "first key is read at the stream's current position")
    E.check_eq([n2.depth, n2.index, n2.parent_fingerprint], [7, 5, b"\x01\x02\x03\x04"], "second key is read after the first")
    E.check(rd.pos == j + 156, "each parse consumes exactly 78 bytes")
    return "ok"


def version_algebra(E, R, purpose, testnet, kind):
    V = R.wallet_utils
    v = SLIP132[(purpose, testnet, kind)]
    ver = E.run(V.Version.parse, v)
    if isinstance(ver, Raised):
        E.fail("each of the 12 versions parses")
        return "raised"
    E.check(ver.key_type == (V.Key.PRV if kind == "prv" else V.Key.PUB), "version -> key type")
    E.check(ver.testnet is testnet, "version -> network")
    E.check(ver.bip_type == {44: V.Bip.BIP44, 49: V.Bip.BIP49, 84: V.Bip.BIP84}[purpose], "version -> BIP flavour")
    E.check(int(ver) == v, "int(Version.parse(v)) == v")
    made = V.Version(key_type=(V.Key.PRV if kind == "prv" else V.Key.PUB).value, bip={44: 0, 49: 1, 84: 2}[purpose], testnet=testnet)
    E.check(int(made) == v, "Version(type, bip, network) -> v")
    # wallet built from a key of this version
    p = mk_payload(E, v, kind)
    w = E.run(R.base_wallet.BaseWallet.from_extended_key, _wrap(E, p["payload"], "string"))
    if isinstance(w, Raised):
        E.fail("wallet can be built from each of the 12 versions")
        return "wallet-raised"
    E.check(w.testnet is testnet, "wallet takes its network from the version prefix")
    E.check(w.watch_only is (kind == "pub"), "wallet is watch-only exactly for public versions")
    E.check(w.master.testnet is testnet, "master node carries the wallet's network")
    E.check(type(w.master) is (R.bip32.PrvKeyNode if kind == "prv" else R.bip32.PubKeyNode), "node type by key type")
    E.check_eq([w.master.key, w.master.chain_code, w.master.depth, w.master.index],
               [p["keydata"], p["c"], p["depth"], p["idx"]], "wallet master holds the key's fields")
    return "ok"


def unknown_version(E, R):
    v = E.bv("version", 32)
    for known in SLIP132.values():
        E.assume(v != known)
    p = mk_payload(E, 0, "prv")
    payload = cm.xkey_payload(v, p["depth"], p["fp"], p["idx"], p["c"], p["keydata"])
    w = E.run(R.base_wallet.BaseWallet.from_extended_key, _wrap(E, payload, "string"))
    E.check(isinstance(w, Raised), "a wallet cannot be built from an unknown version")
    r = E.run(R.wallet_utils.Version.parse, v)
    E.check(isinstance(r, Raised), "Version.parse refuses an unknown version")
    return "refused"


def master_ser(E, R, testnet):
    seed = E.bytes("seed", 32)
    m = E.run(R.bip32.PrvKeyNode.master_key, seed, testnet)
    if isinstance(m, Raised):
        return "invalid"
    I = E.H.hmac512(b"Bitcoin seed", seed)
    k = ifb(I[:32], "big")
    net = "test" if testnet else "main"
    E.check_eq(cm.b58_payload(E, R, m.extended_private_key()),
               cm.xkey_payload(cm.XPRV[net], 0, b"\x00" * 4, 0, I[32:], b"\x00" + I[:32]), "master xprv: zero depth, fingerprint, child number")
    E.check_eq(cm.b58_payload(E, R, m.extended_public_key()),
               cm.xkey_payload(cm.XPUB[net], 0, b"\x00" * 4, 0, I[32:], E.H.sec(k)), "master xpub: zero depth, fingerprint, child number")
    return "ok"


def length_lemma(E, R, version):
    """every 78-byte payload under this version encodes to exactly 111 Base58 characters starting with the
    version's letter (row of common.FIRST_CHAR used by the Base58Check summary)"""
    if not E.symbolic:
        return "native"
    cm.b58_lemma(E, version.to_bytes(4, "big"), 78)
    return "ok"


def cases(tier):
    cs = []
    for (purpose, testnet, kind), v in VERSIONS:
        for form in ("bytes", "stream", "string"):
            cs.append(Case("roundtrip[%d,%s,%s,%s]" % (purpose, "test" if testnet else "main", kind, form), "roundtrip",
                           dict(purpose=purpose, testnet=testnet, kind=kind, form=form), weight=3,
                           need=("serialise(parse(x)) == x under the same version", "all fields survive parsing")))
        cs.append(Case("version[%d,%s,%s]" % (purpose, "test" if testnet else "main", kind), "version_algebra",
                       dict(purpose=purpose, testnet=testnet, kind=kind), need=("version -> BIP flavour",)))
        cs.append(Case("length[%08x]" % v, "length_lemma", dict(version=v), need=("lemma: leading Base58 digit is at most the last listed character; length is m",)))
    for kind in ("prv", "pub"):
        for j in (0, 3):
            cs.append(Case("stream_offset[%s,%d]" % (kind, j), "stream_offset", dict(kind=kind, j=j),
                           need=("second key is read after the first",)))
    cs.append(Case("unknown_version", "unknown_version", need=("a wallet cannot be built from an unknown version",)))
    for t in (False, True):
        cs.append(Case("master[%s]" % t, "master_ser", dict(testnet=t), need=("master xprv: zero depth, fingerprint, child number",)))
    for form, order in (("str", "P,-P"), ("bytes", "-P,P")):
        cs.append(Case("two_parities[%s,%s]" % (form, order), "two_parities", dict(form=form, order=order),
                       need=("keys with equal x coordinate: each node re-serialises with its own key",)))
    return cs


def vectors():
    """BIP32 vector 1 chain m/0' (tests/test_bip32.py): fields of the published xprv"""
    k = "edb2e14f9ee77d26dd93b4ecede8d16ed408ce149b6cd80b0715a2d911a0afea"
    c = "47fdacbd0f1097043b78c63c20c34ef4ed9a111d980047ad16282c7ae6236141"
    w = {"k": k, "c": c, "depth": 1, "fp": "3442193e", "index": 2 ** 31}
    return [("roundtrip", dict(purpose=44, testnet=False, kind="prv", form=f), w) for f in ("bytes", "stream", "string")] + \
           [("roundtrip", dict(purpose=84, testnet=True, kind="pub", form="string"), w),
            ("version_algebra", dict(purpose=49, testnet=True, kind="pub"), w)] + \
           [("unknown_version", {}, dict(w, version=v)) for v in _NEAR_VERSIONS]


# boundary vectors (not from /repo/tests): unregistered versions numerically next to a registered one -- their Base58 text
# starts with the same four letters -- and the extremes
_NEAR_VERSIONS = [0x0488B21F, 0x0488B21D, 0x0488ADE5, 0x04B24747, 0x043587D0, 0x045F1CF5, 0, 0xFFFFFFFF]
