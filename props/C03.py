"""C03 -- mnemonic + passphrase -> seed -> master key follows BIP39/BIP32 for all text; all
constructors agree; the network flag never changes key material."""
import hashlib
import unicodedata

from sx.runner import Case
from sx.harness import Raised
from sx.instrument import sx_int_from_bytes as ifb
from props import common as cm
from props.common import N

ID = "C03"
FUNCTIONS = ["btc_hd_wallet.bip39.bip39_seed_from_mnemonic", "btc_hd_wallet.bip32.PrvKeyNode.master_key",
             "btc_hd_wallet.base_wallet.BaseWallet.__init__", "btc_hd_wallet.base_wallet.BaseWallet.from_entropy_hex",
             "btc_hd_wallet.base_wallet.BaseWallet.from_bip39_seed_hex", "btc_hd_wallet.base_wallet.BaseWallet.from_bip39_seed_bytes",
             "btc_hd_wallet.base_wallet.BaseWallet.from_mnemonic", "btc_hd_wallet.base_wallet.BaseWallet.from_extended_key",
             "btc_hd_wallet.base_wallet.BaseWallet.new_wallet", "btc_hd_wallet.base_wallet.BaseWallet.from_entropy_bits",
             "btc_hd_wallet.bip32.PrvKeyNode.extended_private_key"]
BOUNDS = {"text": "mnemonic and passphrase are uninterpreted text constants: the verdict covers every string of every length and script "
                  "(the code never inspects their characters)", "seed lengths": "every length 0..64 bytes, content symbolic; hex form lower/upper case",
          "networks": "both"}
BOUNDS_ADDED = 'the two fresh-entropy constructors with a passphrase (entropy a free value); HMAC halves that are not a valid key; boundary vectors: checksum-valid sentences with irregular white space, hex-looking text'
BOUNDS["histories, lifetimes, injected faults, boundary vectors"] = BOUNDS_ADDED
STUBS = ["unicodedata.normalize / is_normalized, str.encode, str methods on the opaque text -> uninterpreted functions with the axioms "
         "normalize(F, normalize(F, x)) = normalize(F, x) and is_normalized(F, x) <=> normalize(F, x) = x",
         "hashlib.pbkdf2_hmac, HMAC-SHA512 -> uninterpreted functions", "mnemonic_from_entropy -> summary MNEM(entropy) (verified in C04)",
         "secp256k1 -> group model; Base58Check -> summary"]
ASSUMPTIONS = ["what NFKD does to composed/compatibility/CJK characters, and PBKDF2 itself, are CPython/OpenSSL",
               "native replay of a witness over opaque text uses a fixed battery of strings (composed/decomposed forms, compatibility "
               "characters, CJK, ideographic space, empty passphrase)"]
OUTSIDE = ["NFKD tables", "PBKDF2-HMAC-SHA512 arithmetic"]
LEVEL_TEXT = ("Symbolic execution of the real seed/master/constructor code with text, normalisation, UTF-8 encoding, PBKDF2 and HMAC as "
              "uninterpreted functions: the solver shows that the one PBKDF2 call receives exactly (sha512, utf8(NFKD(m)), "
              "utf8('mnemonic' + NFKD(p)), 2048, default length) and that all construction routes and both networks yield the same "
              "master key material, for all text and all seeds.")
LEVEL_NOTE = "Trusted: z3 (EUF), abstraction of text as uninterpreted terms."

BATTERY = ["", "TREZOR", "abandon abandon about", "café", "café", "ｔｅｓｔ", "ﬁsh", "x²", "Ⅳ",
           "あい　こた", "あい こた", "Å", "Å", "Å", "™", "가", " pad ", "0x00ff"]


def setup_sym(R):
    cm.setup_bip32_sym(R)
    from sx import text, instrument
    text.install()
    R.bip39, R.base_wallet

    def mnem(entropy):
        from sx.values import SxStr, SxBytes
        from sx.instrument import sx_fromhex
        import z3
        b = sx_fromhex(entropy) if not isinstance(entropy, (bytes, SxBytes)) else entropy
        if len(b) * 8 not in (128, 160, 192, 224, 256):
            raise ValueError("incorrect entropy bits")
        f = z3.Function("MNEM_%d" % len(b), z3.BitVecSort(8 * len(b)), text.Text)
        from sx.env import _bv_of
        return text.SxText(f(_bv_of(b)))
    instrument.register(R.bip39.mnemonic_from_entropy, mnem)
    install_fresh_entropy_stubs()


def install_fresh_entropy_stubs():
    """fresh entropy (C08's subject) is an arbitrary value here: one free bit-vector per request"""
    from sx import instrument
    import random as _random
    import z3 as _z3
    from sx.values import SxInt as _SxInt
    cnt = [0]

    def _bits(k):
        k = k if isinstance(k, int) else k.__index__()
        cnt[0] += 1
        return _SxInt.unsigned(_z3.BitVec("fresh_entropy_%d_%d" % (k, cnt[0]), max(k, 1)))
    instrument.register(_random.SystemRandom.getrandbits, lambda self, k: _bits(k))
    instrument.register(_random.getrandbits, _bits)
    instrument.register(_random.Random.getrandbits, lambda self, k: _bits(k))
    import os as _os
    instrument.register(_os.urandom, lambda n: _bits(8 * n).to_bytes(n, "big") if n else b"")


class NativeText:
    nfkd = staticmethod(lambda s: unicodedata.normalize("NFKD", s))
    utf8 = staticmethod(lambda s: s.encode("utf-8"))


SMALL = ["", "a", "b", "ab", " a", "é", "é"]


def texts(E, names):
    """symbolic: one tuple of opaque constants; native: every combination from the battery (a compact battery when
    four texts are needed; it contains pairs with equal concatenation such as ("ab", "") and ("a", "b"))"""
    if E.symbolic:
        from sx import text
        yield tuple(text.fresh(n) for n in names)
    else:
        import itertools
        pick = E.w.get("_battery")
        if pick is not None:
            yield tuple(pick)
            return
        for combo in itertools.product(BATTERY if len(names) < 4 else SMALL, repeat=len(names)):
            yield combo


def ref_seed(E, m, p):
    if E.symbolic:
        from sx import text
        import z3
        nm = text._normalize("NFKD", m)
        np_ = text._normalize("NFKD", p)
        return text.pbkdf2_opaque("sha512", nm.encode("utf-8"), ("mnemonic" + np_).encode("utf-8"), 2048, None)
    return hashlib.pbkdf2_hmac("sha512", unicodedata.normalize("NFKD", m).encode("utf-8"),
                               ("mnemonic" + unicodedata.normalize("NFKD", p)).encode("utf-8"), 2048)


def ref_master(E, seed):
    I = E.H.hmac512(b"Bitcoin seed", seed)
    return I[:32], I[32:]


def _valid(E, key):
    k = ifb(key, "big")
    return (k != 0) & (k < N) if E.symbolic else (k != 0 and k < N)


def seed(E, R):
    for m, p in texts(E, ("m", "p")):
        got = E.run(R.bip39.bip39_seed_from_mnemonic, m, p)
        if isinstance(got, Raised):
            E.fail("seed is computed for every mnemonic/passphrase")
            continue
        E.check_eq(got, ref_seed(E, m, p), "seed == PBKDF2-HMAC-SHA512(utf8(NFKD(m)), utf8('mnemonic'+NFKD(p)), 2048, 64)")
        got0 = E.run(R.bip39.bip39_seed_from_mnemonic, m)
        E.check_eq(got0, ref_seed(E, m, ""), "default passphrase is the empty string")
        if E.symbolic:
            from sx import env
            calls = [c for c in env.calls() if c[0].startswith("pbkdf2")]
            E.check(len(calls) == 2 and calls[0][4] == 2048 and calls[0][5] is None and calls[0][1] == "sha512",
                    "exactly one PBKDF2 call per seed: sha512, 2048 rounds, default length")
    return "ok"


def seed_ascii(E, R, L, P):
    """mnemonic / passphrase as character strings of a given length (printable ASCII, content free): the lengths around
    the HMAC-SHA512 block size (128) are where a re-implemented key schedule would differ"""
    m = E.chars("m", L, None, lo=32, hi=126) if L else ""
    p = E.chars("p", P, None, lo=32, hi=126) if P else ""
    got = E.run(R.bip39.bip39_seed_from_mnemonic, m, p)
    if isinstance(got, Raised):
        E.fail("seed is computed for every mnemonic/passphrase")
        return "raised"
    mb = m.encode("utf-8") if L else b""
    pb = (b"mnemonic" + p.encode("utf-8")) if P else b"mnemonic"
    E.check_eq(got, E.H.pbkdf2("sha512", mb, pb, 2048), "seed == PBKDF2-HMAC-SHA512(mnemonic bytes, 'mnemonic' + passphrase bytes, 2048, 64) (ASCII text)")
    return "ok"


def routes(E, R, testnet):
    for m, p in texts(E, ("m", "p")):
        w = E.run(R.base_wallet.BaseWallet.from_mnemonic, m, p, testnet)
        sd = ref_seed(E, m, p)
        key, cc = ref_master(E, sd)
        if not (bool(_valid(E, key)) if E.symbolic else _valid(E, key)):
            # HMAC halves that are not a valid key: no wallet (C18); in no case a wallet holding some other key material
            if not isinstance(w, Raised):
                E.check_eq([w.master.key, w.master.chain_code], [key, cc], "from_mnemonic: master = HMAC-SHA512('Bitcoin seed', seed) halves")
            continue
        if isinstance(w, Raised):
            E.fail("wallet is built from a mnemonic whose master key is valid")
            continue
        E.check_eq([w.master.key, w.master.chain_code], [key, cc], "from_mnemonic: master = HMAC-SHA512('Bitcoin seed', seed) halves")
        E.check_eq([w.master.depth, w.master.index, w.master.testnet, w.testnet, w.mnemonic, w.password],
                   [0, 0, testnet, testnet, m, p], "from_mnemonic: depth/index zero, network and text recorded")
        w2 = E.run(R.base_wallet.BaseWallet.from_bip39_seed_bytes, sd, testnet)
        E.check_eq([w2.master.key, w2.master.chain_code] if not isinstance(w2, Raised) else None, [key, cc],
                   "from_bip39_seed_bytes(seed) holds the same master key material")
        xprv = w.master.extended_private_key()
        w3 = E.run(R.base_wallet.BaseWallet.from_extended_key, xprv)
        if isinstance(w3, Raised):
            E.fail("from_extended_key(master xprv) builds")
        else:
            k3 = w3.master.key[1:] if len(w3.master.key) == 33 else w3.master.key
            E.check_eq([k3, w3.master.chain_code, w3.testnet], [key, cc, testnet],
                       "from_extended_key(master xprv) holds the same master key material and network")
        wo = E.run(R.base_wallet.BaseWallet.from_mnemonic, m, p, not testnet)
        if not isinstance(wo, Raised):
            E.check_eq([wo.master.key, wo.master.chain_code], [key, cc], "the network flag does not change key material")
    return "ok"


def two_wallets(E, R, testnet):
    """two wallets built one after the other in the same process from different (mnemonic, passphrase) pairs:
    the second one's master key is that of its own pair"""
    for m1, p1, m2, p2 in texts(E, ("m", "p", "m2", "p2")):
        w1 = E.run(R.base_wallet.BaseWallet.from_mnemonic, m1, p1, testnet)
        w2 = E.run(R.base_wallet.BaseWallet.from_mnemonic, m2, p2, testnet)
        for w, m, p in ((w1, m1, p1), (w2, m2, p2)):
            key, cc = ref_master(E, ref_seed(E, m, p))
            if not (bool(_valid(E, key)) if E.symbolic else _valid(E, key)):
                continue
            if isinstance(w, Raised):
                E.fail("wallet is built from a mnemonic whose master key is valid (history)")
                continue
            E.check_eq([w.master.key, w.master.chain_code], [key, cc], "each wallet holds the master key of its own mnemonic and passphrase")
            E.check_eq([w.mnemonic, w.password], [m, p], "each wallet records its own mnemonic and passphrase")
    return "ok"


def entropy_route(E, R, nbytes, testnet):
    """wallet from entropy == wallet from the mnemonic that encodes it"""
    ent = E.bytes("ent", nbytes)
    for (p,) in texts(E, ("p",)):
        w = E.run(R.base_wallet.BaseWallet.from_entropy_hex, ent.hex(), p, testnet)
        m = E.call(R.bip39.mnemonic_from_entropy, ent.hex())
        if isinstance(m, Raised):
            E.fail("valid entropy encodes")
            continue
        w0 = E.run(R.base_wallet.BaseWallet.from_mnemonic, m, p, testnet)
        if isinstance(w0, Raised):
            E.check(isinstance(w, Raised), "from_entropy_hex fails only when the mnemonic route fails")
            continue
        if isinstance(w, Raised):
            E.fail("from_entropy_hex builds whenever the mnemonic route does")
            continue
        E.check_eq([w.master.key, w.master.chain_code, w.mnemonic, w.password, w.testnet],
                   [w0.master.key, w0.master.chain_code, m, p, testnet], "from_entropy_hex == from_mnemonic(mnemonic of that entropy)")
    return "ok"


def fresh_route(E, R, via, nwords, testnet):
    """the constructors that draw fresh entropy take a passphrase too: the wallet they return holds the master key of
    (its own mnemonic, that passphrase) and records both"""
    bits = {12: 128, 15: 160, 18: 192, 21: 224, 24: 256}[nwords]
    for (p,) in texts(E, ("p",)):
        if via == "new_wallet":
            w = E.run(R.base_wallet.BaseWallet.new_wallet, nwords, p, testnet)
        else:
            w = E.run(R.base_wallet.BaseWallet.from_entropy_bits, bits, p, testnet)
        if isinstance(w, Raised):
            # legitimate only when the fresh mnemonic's master key is invalid (probability 2^-127 natively)
            E.check(E.symbolic, "fresh wallet is built")
            continue
        m = w.mnemonic
        key, cc = ref_master(E, ref_seed(E, m, p))
        E.check_eq([w.master.key, w.master.chain_code], [key, cc],
                   "fresh wallet: master key material is that of (its mnemonic, the passphrase given)")
        E.check_eq([w.password, w.testnet, w.master.testnet], [p, testnet, testnet], "fresh wallet: passphrase and network recorded")
    return "ok"


def seed_routes(E, R, lo, hi, upper, testnet):
    n = E.choose("n", lo, hi)
    sd = E.bytes("seed", n)
    key, cc = ref_master(E, sd)
    if not (bool(_valid(E, key)) if E.symbolic else _valid(E, key)):
        w = E.run(R.base_wallet.BaseWallet.from_bip39_seed_bytes, sd, testnet)
        if not isinstance(w, Raised):
            E.check_eq([w.master.key, w.master.chain_code], [key, cc],
                       "seed bytes: master = HMAC halves, zero depth/index, network as requested")
        return "invalid-master"
    w = E.run(R.base_wallet.BaseWallet.from_bip39_seed_bytes, sd, testnet)
    if isinstance(w, Raised):
        E.fail("from_bip39_seed_bytes builds for a valid master key")
        return "raised"
    E.check_eq([w.master.key, w.master.chain_code, w.master.depth, w.master.index, w.master.testnet, w.testnet],
               [key, cc, 0, 0, testnet, testnet], "seed bytes: master = HMAC halves, zero depth/index, network as requested")
    hx = sd.hex() if n else ""
    if upper and n:
        hx = hx.upper()
    w2 = E.run(R.base_wallet.BaseWallet.from_bip39_seed_hex, hx, testnet)
    if isinstance(w2, Raised):
        E.fail("from_bip39_seed_hex builds for the hex of a valid seed")
        return "hex-raised"
    E.check_eq([w2.master.key, w2.master.chain_code, w2.testnet], [key, cc, testnet],
               "seed hex: same master key material as seed bytes")
    return n


def cases(tier):
    cs = [Case("seed", "seed", need=("seed == PBKDF2-HMAC-SHA512(utf8(NFKD(m)), utf8('mnemonic'+NFKD(p)), 2048, 64)",))]
    for t in (False, True):
        cs.append(Case("routes[testnet=%s]" % t, "routes", dict(testnet=t), need=("the network flag does not change key material",
                                                                                    "from_mnemonic: master = HMAC-SHA512('Bitcoin seed', seed) halves")))
    for L, P in ((0, 0), (1, 3), (64, 0), (127, 2), (128, 0), (128, 3), (129, 1), (200, 0), (24, 120), (24, 121)):
        cs.append(Case("seed_ascii[%d,%d]" % (L, P), "seed_ascii", dict(L=L, P=P), weight=3,
                       need=("seed == PBKDF2-HMAC-SHA512(mnemonic bytes, 'mnemonic' + passphrase bytes, 2048, 64) (ASCII text)",)))
    cs.append(Case("two_wallets", "two_wallets", dict(testnet=False), weight=5,
                   need=("each wallet holds the master key of its own mnemonic and passphrase",)))
    for n in (16, 20, 24, 28, 32):
        cs.append(Case("entropy[%d]" % n, "entropy_route", dict(nbytes=n, testnet=(n % 8 == 0)),
                       need=("from_entropy_hex == from_mnemonic(mnemonic of that entropy)",)))
    for via, nw, t in (("new_wallet", 12, False), ("new_wallet", 24, True), ("from_entropy_bits", 15, True), ("from_entropy_bits", 21, False)):
        cs.append(Case("fresh_route[%s,%d]" % (via, nw), "fresh_route", dict(via=via, nwords=nw, testnet=t),
                       need=("fresh wallet: master key material is that of (its mnemonic, the passphrase given)",)))
    step = 8
    for lo in range(0, 65, step):
        for upper in (False, True):
            cs.append(Case("seed_routes[%d..%d,upper=%s]" % (lo, min(lo + step - 1, 64), upper), "seed_routes",
                           dict(lo=lo, hi=min(lo + step - 1, 64), upper=upper, testnet=(lo % 16 == 0)), weight=lo + 1, max_paths=100000,
                           need=("seed hex: same master key material as seed bytes",)))
    return cs


def vectors():
    v = [("seed", {}, {"_battery": ["legal winner thank year wave sausage worth useful legal winner thank yellow", "TREZOR"]}),
         ("routes", dict(testnet=False), {"_battery": ["letter advice cage absurd amount doctor acoustic avoid letter advice cage above", "TREZOR"]}),
         ("seed_routes", dict(lo=0, hi=64, upper=False, testnet=True),
          {"n": 64, "seed": hashlib.pbkdf2_hmac("sha512", b"abandon abandon", b"mnemonicTREZOR", 2048).hex()})]
    # boundary vectors (not from /repo/tests): checksum-valid sentences written with irregular white space, text that
    # happens to be well-formed hex, empty strings -- the seed is defined on the text exactly as given
    base = "legal winner thank year wave sausage worth useful legal winner thank yellow"
    for m in (base.replace(" thank yellow", "  thank yellow"), base + "\n", " " + base, base.replace(" ", "\t"), base.replace(" ", "\u3000"),
              "deadbeef", "cafe", "beef beef beef beef beef beef beef beef beef beef fade feed", "00", ""):
        for p in ("", "TREZOR", "cafe"):
            v.append(("seed", {}, {"_battery": [m, p]}))
            v.append(("routes", dict(testnet=(len(m) % 2 == 0)), {"_battery": [m, p]}))
    return v
