"""C16 -- mainnet and testnet artefacts never mix."""
from sx.runner import Case
from sx.harness import Raised
from props import common as cm, h_wallet as hw
from props.common import HARD, SLIP132, ser
from props import C07

ID = "C16"
FUNCTIONS = ["btc_hd_wallet.helper.h160_to_p2pkh_address", "btc_hd_wallet.helper.h160_to_p2sh_address",
             "btc_hd_wallet.helper.h160_to_p2wpkh_address", "btc_hd_wallet.helper.h256_to_p2wsh_address",
             "btc_hd_wallet.keys.PrivateKey.wif", "btc_hd_wallet.bip32.PubKeyNode.pub_version", "btc_hd_wallet.bip32.PrvKeyNode.prv_version",
             "btc_hd_wallet.wallet_utils.Version.__int__", "btc_hd_wallet.base_wallet.BaseWallet.__init__",
             "btc_hd_wallet.base_wallet.BaseWallet.from_extended_key", "btc_hd_wallet.base_wallet.BaseWallet.node_extended_keys",
             "btc_hd_wallet.base_wallet.BaseWallet.determine_node_version_int", "btc_hd_wallet.paper_wallet.PaperWallet.generate",
             "btc_hd_wallet.paper_wallet.PaperWallet.bip44", "btc_hd_wallet.paper_wallet.PaperWallet.bip49",
             "btc_hd_wallet.paper_wallet.PaperWallet.bip84", "btc_hd_wallet.paper_wallet.PaperWallet.wasabi_json",
             "btc_hd_wallet.base_wallet.BaseWallet.p2pkh_address .. p2sh_p2wsh_address"]
BOUNDS = {"values": "both networks x free master key x free account/interval start x every output-producing API; wallets re-imported "
                    "from each of the 12 version prefixes; node_extended_keys of nodes at free paths of length 0..3; two wallets of "
                    "different networks used one after the other in the same process"}
BOUNDS_ADDED = 'fresh-entropy constructors on both networks incl. a first draw that gives an invalid master key; end-to-end runs that build the wallet from an extended key or with --testnet'
BOUNDS["histories, lifetimes, injected faults, boundary vectors"] = BOUNDS_ADDED
STUBS = ["as C06"]
ASSUMPTIONS = ["BIP85 WIF/xprv values are mainnet-format child secrets by BIP85 and are not network-tagged artefacts"]
OUTSIDE = []
LEVEL_TEXT = ("Every network-tagged leaf the wallet emits (addresses of five kinds, WIFs, extended keys in every SLIP-132 flavour, "
              "coin type in paths, Wasabi key) is classified by an independent decoder on its term and shown to carry the wallet's "
              "own network, for all keys, accounts and paths; wallets built from each version prefix take that prefix's network.")
LEVEL_NOTE = "Trusted: z3, summaries of C06."


def setup_sym(R):
    hw.setup_wallet_sym(R)
    from props import C03
    C03.install_fresh_entropy_stubs()


def fresh_network(E, R, via, nwords, testnet):
    """the constructors that draw fresh entropy: the wallet that comes back carries the network that was asked for --
    also when the first draw does not give a valid master key (all PRF outputs are explored; BIP32 then asks for an error,
    and whatever the library does instead, it may not hand out a wallet of the other network)"""
    bits = {12: 128, 15: 160, 18: 192, 21: 224, 24: 256}[nwords]
    if via == "new_wallet":
        w = E.run(R.paper_wallet.PaperWallet.new_wallet, nwords, "", testnet)
    else:
        w = E.run(R.paper_wallet.PaperWallet.from_entropy_bits, bits, "", testnet)
    if isinstance(w, Raised):
        return "raised"
    E.check(w.testnet is testnet and w.master.testnet is testnet, "a freshly created wallet carries the network that was asked for")
    for kind in ("p2pkh", "p2wpkh"):
        a = E.run(getattr(w, kind + "_address"), w.master)
        cls, net = hw.classify(E, R, a) if not isinstance(a, Raised) else ("raised", None)
        E.check(cls == "address" and net == ("test" if testnet else "main"), "a freshly created wallet emits addresses of the network that was asked for")
    d = E.run(w.node_extended_keys, w.master)
    if not isinstance(d, Raised):
        for key in ("pub", "prv"):
            cls, net = hw.classify(E, R, d[key])
            E.check(net == ("test" if testnet else "main"), "a freshly created wallet emits extended keys of the network that was asked for")
    return "ok"


def cli_vector(E, R, **kw):
    """end-to-end runs of `python -m btc_hd_wallet` that build the wallet from an extended key or with --testnet (C20's vectors)"""
    from props import C20
    return C20.cli_vector(E, R, **kw)


def _cli_vectors():
    from props import C20
    return [(fn, params, w) for (fn, params, w) in C20.vectors()
            if fn == "cli_vector" and params.get("expect") == "ok" and ("from-master-xprv" in params["argv"] or "--testnet" in params["argv"])]


def _expect(E, R, obj, testnet, label, skip=("BIP85",)):
    want = "test" if testnet else "main"
    n = 0
    for path, leaf in hw.leaves(obj):
        if path and path[0] in skip:
            continue
        cls, net = hw.classify(E, R, leaf)
        if net is None:
            continue
        n += 1
        E.check(net == want, label, extra={"leaf_position": list(map(str, path)), "class": cls, "network": net})
    return n


def generate(E, R, testnet, ln):
    w, k, c = hw.mk_wallet(E, R, testnet)
    account = E.bv("account", 31)
    start, end = hw.interval(E, ln)
    data = E.run(w.generate, account, (start, end))
    if isinstance(data, Raised):
        return "invalid-bip85"
    n = _expect(E, R, data, testnet, "every network-tagged leaf of generate() carries the wallet's network")
    E.check(n >= 9 + 4 * 3 * ln - 3 * ln, "network-tagged leaves were found and classified")
    js = E.run(w.wasabi_json)
    if not isinstance(js, Raised):
        obj = js.obj if E.symbolic else __import__("json").loads(js)
        cls, net = hw.classify(E, R, obj["ExtPubKey"])
        E.check(cls == "xpub" and net == ("test" if testnet else "main"), "Wasabi export key carries the wallet's network")
    return "ok"


def addresses(E, R, testnet, watch):
    from props.C05 import KINDS
    k, kb = cm.sym_scalar(E, "k")
    c = E.bytes("c", 32)
    node = R.bip32.PubKeyNode(key=E.H.sec(k), chain_code=c, testnet=testnet) if watch else \
        R.bip32.PrvKeyNode(key=kb, chain_code=c, testnet=testnet)
    w = R.base_wallet.BaseWallet(master=node, testnet=testnet)
    for kind in KINDS:
        a = E.run(getattr(w, kind + "_address"), node)
        if isinstance(a, Raised):
            E.fail("address produced")
            continue
        cls, net = hw.classify(E, R, a)
        E.check(cls == "address" and net == ("test" if testnet else "main"), "every address kind carries the wallet's network")
    if not watch:
        wif = E.run(node.private_key.wif, True, testnet)
        cls, net = hw.classify(E, R, wif)
        E.check(cls == "secret:wif" and net == ("test" if testnet else "main"), "WIF of a derived key carries the requested network")
    return "ok"


def node_keys(E, R, testnet, L):
    """node_extended_keys of a node at a free path: version by (purpose of the path, wallet network)"""
    w, k, c = hw.mk_wallet(E, R, testnet, cls=R.base_wallet.BaseWallet, with_text=False)
    idxs = [E.bv("i%d" % j, 32) for j in range(L)]
    node = E.run(w.master.derive_path, list(idxs))
    if isinstance(node, Raised):
        return "raised"
    d = E.run(w.node_extended_keys, node)
    if isinstance(d, Raised):
        E.fail("node_extended_keys works")
        return "raised2"
    want = "test" if testnet else "main"
    for key in ("pub", "prv"):
        cls, net = hw.classify(E, R, d[key])
        E.check(net == want, "extended keys of any node carry the wallet's network")
    purpose = 44
    if L:
        p0 = idxs[0]
        purpose = E.ite(p0 == 49 + HARD, 49, E.ite(p0 == 84 + HARD, 84, 44))
    for key in ("pub", "prv"):
        ver = cm.b58_payload(E, R, d[key])[:4]
        exp = ser(SLIP132[(44, testnet, key)], 4)
        if L:
            exp49, exp84 = ser(SLIP132[(49, testnet, key)], 4), ser(SLIP132[(84, testnet, key)], 4)
            if E.symbolic:
                is49, is84 = bool(idxs[0] == 49 + HARD), False
                if not is49:
                    is84 = bool(idxs[0] == 84 + HARD)
            else:
                is49, is84 = idxs[0] == 49 + HARD, idxs[0] == 84 + HARD
            exp = exp49 if is49 else exp84 if is84 else exp
        E.check_eq(ver, exp, "SLIP-132 version by purpose and wallet network")
    return "ok"


def reimport(E, R, purpose, testnet, kind):
    """a wallet built from an extended key takes its network from the key's prefix, and so does everything it emits"""
    v = SLIP132[(purpose, testnet, kind)]
    p = C07.mk_payload(E, v, kind)
    w = E.run(R.paper_wallet.PaperWallet.from_extended_key, C07._wrap(E, p["payload"], "string"))
    if isinstance(w, Raised):
        E.fail("wallet built from each of the 12 prefixes")
        return "raised"
    E.check(w.testnet is testnet and w.master.testnet is testnet, "wallet and master node take the network of the version prefix")
    want = "test" if testnet else "main"
    for f in ("extended_public_key",) + (("extended_private_key",) if kind == "prv" else ()):
        s = E.run(getattr(w.master, f))
        cls, net = hw.classify(E, R, s)
        E.check(net == want, "default-version serialisation of the re-imported master carries that network")
    d = E.run(w.node_extended_keys, w.master)
    if not isinstance(d, Raised):
        _expect(E, R, d, testnet, "node_extended_keys of a re-imported wallet carry that network", skip=())
    if kind == "prv":
        child = E.run(w.master.ckd, 0) if E.symbolic else w.master.ckd(0)
        if not isinstance(child, Raised):
            E.check(child.testnet is testnet, "children of a re-imported master inherit the network")
            cls, net = hw.classify(E, R, E.run(child.private_key.wif, True, w.testnet))
            E.check(net == want, "WIF from a re-imported wallet carries that network")
        js = E.run(w.wasabi_json)
        if not isinstance(js, Raised):
            obj = js.obj if E.symbolic else __import__("json").loads(js)
            cls, net = hw.classify(E, R, obj["ExtPubKey"])
            E.check(net == want, "Wasabi export of a re-imported wallet carries that network")
    return "ok"


def two_wallets(E, R, first_testnet):
    """a wallet of one network used after a wallet of the other network in the same process"""
    k, kb = cm.sym_scalar(E, "k")
    c = E.bytes("c", 32)
    outs = []
    for t in (first_testnet, not first_testnet):
        m = R.bip32.PrvKeyNode(key=kb, chain_code=c, testnet=t)
        w = R.paper_wallet.PaperWallet(master=m, testnet=t)
        d = E.run(w.node_extended_keys, m)
        acc = E.run(lambda: w.bip84(0, (0, 1)))
        path_node = E.run(w.by_path, "m/84'/%d'/0'" % (1 if t else 0))
        d2 = E.run(w.node_extended_keys, path_node) if not isinstance(path_node, Raised) else path_node
        outs.append((t, d, acc, d2))
    for t, d, acc, d2 in outs:
        for o in (d, acc, d2):
            if isinstance(o, Raised):
                continue
            _expect(E, R, o, t, "outputs of each wallet carry its own network whatever was used before", skip=())
    return "ok"


def cases(tier):
    cs = []
    for (via, nw, t) in (("new_wallet", 12, True), ("from_entropy_bits", 24, True), ("new_wallet", 18, False)):
        cs.append(Case("fresh_network[%s,%d,testnet=%s]" % (via, nw, t), "fresh_network", dict(via=via, nwords=nw, testnet=t), weight=5,
                       need=("a freshly created wallet carries the network that was asked for",)))
    for t in (False, True):
        for ln in ((0, 2) if tier == "quick" else (0, 1, 2, 3)):
            cs.append(Case("generate[testnet=%s,len=%d]" % (t, ln), "generate", dict(testnet=t, ln=ln), weight=10 * (ln + 1), max_paths=5000,
                           need=("every network-tagged leaf of generate() carries the wallet's network",)))
        for watch in (False, True):
            cs.append(Case("addresses[testnet=%s,watch=%s]" % (t, watch), "addresses", dict(testnet=t, watch=watch),
                           need=("every address kind carries the wallet's network",)))
        for L in (0, 1, 2, 3):
            cs.append(Case("node_keys[testnet=%s,L=%d]" % (t, L), "node_keys", dict(testnet=t, L=L), max_paths=2000,
                           need=("SLIP-132 version by purpose and wallet network",)))
        cs.append(Case("two_wallets[first=%s]" % t, "two_wallets", dict(first_testnet=t), weight=5,
                       need=("outputs of each wallet carry its own network whatever was used before",)))
    for (purpose, testnet, kind), v in sorted(SLIP132.items(), key=lambda kv: kv[1]):
        cs.append(Case("reimport[%d,%s,%s]" % (purpose, "test" if testnet else "main", kind), "reimport",
                       dict(purpose=purpose, testnet=testnet, kind=kind), weight=3,
                       need=("wallet and master node take the network of the version prefix",)))
    return cs


def vectors():
    k = "e8f32e723decf4051aefac8e2c93c9c5b214313817cdb01a1494b917c8436b35"
    c = "873dff81c02f525623fd1fe5167eac3a55a049de3d314bb42ee227ffed37d508"
    w = {"k": k, "c": c, "depth": 0, "fp": "00000000", "index": 0}
    return [("generate", dict(testnet=True, ln=2), {"k": k, "c": c, "account": 1, "start": 3}),
            ("addresses", dict(testnet=True, watch=True), {"k": k, "c": c}),
            ("two_wallets", dict(first_testnet=False), {"k": k, "c": c}),
            ("reimport", dict(purpose=84, testnet=True, kind="prv"), w), ("reimport", dict(purpose=49, testnet=False, kind="pub"), w)] + _cli_vectors()
