"""C18 -- invalid children are reported, never returned (PRF substituted by an uninterpreted function,
so all 2^512 outputs are covered, including IL = n, n+1, 2^256-1, n - k_par and IL*G = -K_par)."""
from sx.runner import Case
from sx.harness import Raised
from sx.instrument import sx_int_from_bytes as ifb
from props import common as cm, h_bip32
from props.common import N, HARD, ser

ID = "C18"
FUNCTIONS = ["btc_hd_wallet.bip32.PrvKeyNode.master_key", "btc_hd_wallet.bip32.PrvKeyNode.ckd",
             "btc_hd_wallet.bip32.PubKeyNode.ckd", "btc_hd_wallet.bip32.PrvKeyNode.private_key",
             "btc_hd_wallet.bip32.PubKeyNode.public_key", "btc_hd_wallet.keys.PrivateKey.__init__",
             "btc_hd_wallet.keys.PublicKey.parse", "btc_hd_wallet.keys.PublicKey.from_point",
             "btc_hd_wallet.bip85.BIP85DeterministicEntropy.correct_key",
             "btc_hd_wallet.bip85.BIP85DeterministicEntropy.wif", "btc_hd_wallet.bip85.BIP85DeterministicEntropy.xprv",
             "btc_hd_wallet.bip85.BIP85DeterministicEntropy.entropy", "btc_hd_wallet.helper.hmac_sha512"]
BOUNDS = {"values": "no bound: parent scalar (all of [1,n-1]), chain code, depth 0..254, index 0..2^32-1 and the 512-bit "
                    "PRF output are free solver variables", "master seed lengths": "16, 32, 64 bytes (content symbolic)",
          "bip85": "index symbolic in [0, 2^31); applications WIF and XPRV"}
STUBS = ["HMAC-SHA512 -> uninterpreted function (the substitution the property prescribes)",
         "secp256k1 (ecdsa) -> isomorphic group model (Z_n,+); SEC encoding via uninterpreted PAR/X with inverse DLOG",
         "SHA-256 / RIPEMD-160 -> uninterpreted (fingerprints only)", "Base58Check -> recording summary"]
ASSUMPTIONS = ["ecdsa implements the secp256k1 group and its documented range/length checks",
               "the pysecp256k1 branch is not the live code (ImportError in this environment)"]
OUTSIDE = ["the pysecp256k1 code path", "depth-255 parents"]
LEVEL_TEXT = ("Symbolic execution of the real ckd/master_key/BIP85 key checks with the PRF as an uninterpreted "
              "function: for every parent and every one of the 2^512 PRF outputs the solver shows that an invalid "
              "result raises and appends no child, and that valid results are returned.")
LEVEL_NOTE = "Trusted: z3, the group model of ecdsa, engine models of int/bytes primitives."


def setup_sym(R):
    cm.setup_bip32_sym(R)
    R.bip85


def priv(E, R, form, testnet):
    return h_bip32.priv_step(E, R, form, testnet, "C18")


def pub(E, R, testnet):
    return h_bip32.pub_step(E, R, testnet, "C18")


def master(E, R, seedlen, testnet):
    return h_bip32.master(E, R, seedlen, testnet, "C18")


def correct_key(E, R):
    kb = E.bytes("key", 32)
    r = E.run(R.bip85.BIP85DeterministicEntropy.correct_key, kb)
    k = ifb(kb, "big")
    if k == 0 or k >= N:
        E.check(isinstance(r, Raised), "correct_key rejects 0 and values >= n")
        return "invalid"
    E.check(not isinstance(r, Raised), "correct_key accepts [1, n-1]")
    return "valid"


def bip85_secret(E, R, app):
    """WIF / XPRV application: a secret half that is 0 or >= n must raise, never yield a string"""
    k, kb = cm.sym_scalar(E, "k")
    c = E.bytes("c", 32)
    idx = E.bv("idx", 31)
    master = R.bip32.PrvKeyNode(key=kb, chain_code=c)
    b85 = R.bip85.BIP85DeterministicEntropy(master_node=master)
    r = E.run(b85.wif if app == 2 else b85.xprv, idx)
    # reference derivation m/83696968'/app'/idx'
    kk, cc = k, c
    for lvl in (83696968 + HARD, app + HARD, idx + HARD):
        ref = cm.ckd_priv(E, kk, cc, lvl)
        if ref[0] == "invalid":
            E.check(isinstance(r, Raised), "invalid intermediate child raises (bip85)")
            return "invalid-path"
        kk, cc = ref
    ent = E.H.hmac512(b"bip-entropy-from-k", ser(kk, 32))
    sec = ifb(ent[:32] if app == 2 else ent[32:], "big")
    if sec == 0 or sec >= N:
        E.check(isinstance(r, Raised), "BIP85 secret 0 or >= n raises instead of yielding a string")
        return "invalid"
    E.check(not isinstance(r, Raised), "BIP85 valid secret yields a string")
    return "valid"


def cases(tier):
    cs = []
    for form in (32, 33):
        for t in (False, True):
            cs.append(Case("priv[form=%d,testnet=%s]" % (form, t), "priv", dict(form=form, testnet=t),
                           need=("invalid private child (IL >= n) raises", "invalid private child (ki == 0) raises",
                                 "valid private child is returned")))
    for t in (False, True):
        cs.append(Case("pub[testnet=%s]" % t, "pub", dict(testnet=t),
                       need=("invalid public child (IL >= n) raises", "invalid public child (infinity) raises")))
    for L in ((16, 32, 64) if tier == "quick" else (0, 1, 16, 31, 32, 33, 64, 65)):
        cs.append(Case("master[%d]" % L, "master", dict(seedlen=L, testnet=False),
                       need=("invalid master key (IL = 0 or IL >= n) raises",) if L else ()))
    cs.append(Case("correct_key", "correct_key", need=("correct_key rejects 0 and values >= n", "correct_key accepts [1, n-1]")))
    for app in (2, 32):
        cs.append(Case("bip85[%d]" % app, "bip85_secret", dict(app=app), max_paths=2000,
                       need=("BIP85 secret 0 or >= n raises instead of yielding a string", "BIP85 valid secret yields a string")))
    return cs
