"""C04 -- mnemonic sentences encode their entropy losslessly with a valid checksum; other sizes are
rejected; the embedded word list is the official one."""
import hashlib

from sx.runner import Case
from sx.harness import Raised
from sx.instrument import sx_int_from_bytes as ifb
from sx.values import WordItem, SxStr

ID = "C04"
FUNCTIONS = ["btc_hd_wallet.bip39.mnemonic_from_entropy", "btc_hd_wallet.bip39.checksum_length",
             "btc_hd_wallet.bip39.correct_entropy_bits_value", "btc_hd_wallet.bip39.mnemonic_from_entropy_bits",
             "btc_hd_wallet.base_wallet.BaseWallet.from_entropy_hex", "btc_hd_wallet.helper.sha256",
             "btc_hd_wallet.helper.big_endian_to_int"]
BOUNDS = {"encoding": "every entropy of 128/160/192/224/256 bits (all bit patterns) with every SHA-256 output (uninterpreted), "
                      "lower- and upper-case hex", "rejection": "every byte string of every other length 0..64; odd nibble counts; "
          "hex text with 1 blank at every byte boundary (all lengths 0..40) and 2 blanks (quick: lengths 15-17, 19-21; thorough: 0..40)",
          "word list": "ground fact (evaluated): 2048 distinct entries, SHA-256 of the newline-joined list = official english.txt digest"}
BOUNDS_ADDED = 'two requests in one process (second entropy = first with more leading zero bytes, or unrelated), via the wallet constructor and directly'
BOUNDS["histories, lifetimes, injected faults, boundary vectors"] = BOUNDS_ADDED
STUBS = ["SHA-256 -> uninterpreted function", "bip39.word_list -> index-recording proxy over the real list",
         "BaseWallet.from_mnemonic -> recording stub (C03 covers it)"]
ASSUMPTIONS = ["engine models of bytes.fromhex / bin / zfill / re.findall('.'*11) / int(s, 2) (validated against native runs)"]
OUTSIDE = ["SHA-256 itself", "non-hex characters other than ASCII blanks"]
LEVEL_TEXT = ("Symbolic execution of the real mnemonic_from_entropy on fully symbolic entropy: word count and every 11-bit word "
              "index are compared with the BIP39 bit layout for all entropy values and all checksums; every other size and "
              "blank-padded hex is shown to be rejected (or, for blank-padded valid sizes, encoded losslessly).")
LEVEL_NOTE = "Trusted: z3, SHA-256 abstracted, engine string models."
VALID = (16, 20, 24, 28, 32)
OFFICIAL_SHA256 = "2f5eed53a4727b4bf8880d8f3f199efc90e58503646d9ff8eff3a2ed3b24dbda"


class WordProxy(list):
    """the real word list; a symbolic index yields an index-recording item instead of forking 2048 ways"""

    def __sx_getitem__(self, k):
        from sx.values import SxInt
        if isinstance(k, SxInt):
            if bool(k < 0) or bool(k >= len(self)):
                raise IndexError("list index out of range")
            return SxStr([WordItem(k, self)])
        return list.__getitem__(self, k)


class _Rec:
    def __init__(self, **k):
        self.__dict__.update(k)


def setup_sym(R):
    from sx import instrument
    R.bip39.word_list = WordProxy(R.bip39.word_list)
    instrument.register(R.base_wallet.BaseWallet.from_mnemonic.__func__,
                        lambda cls, mnemonic, password="", testnet=False: _Rec(mnemonic=mnemonic, password=password,
                                                                              testnet=testnet))
    # seed stretching is C03's subject: here it is an arbitrary 64-byte value per request (a sentence of symbolic words
    # cannot be normalised character by character)
    import z3
    from sx import core
    from sx.values import bytes_from_bv

    def seed_stub(mnemonic, password=""):
        return bytes_from_bv(core.CTX.newvar("seed", z3.BitVecSort(512)), 64)
    instrument.register(R.bip39.bip39_seed_from_mnemonic, seed_stub)


def word_indexes(E, R, sentence):
    """indexes of the words of a produced sentence (symbolic: recorded items; native: list lookup)"""
    if isinstance(sentence, str):
        wl = list(R.bip39.word_list)
        if sentence == "":
            return []
        return [wl.index(w) for w in sentence.split(" ")]
    # tokens are either one WordItem (word selected by a symbolic index) or a run of concrete characters (word selected by
    # a concrete index, e.g. an 11-bit group that lies entirely inside concrete zero bytes); separated by single blanks
    wl = list(R.bip39.word_list)
    out = []
    cur = None           # None: at a token start; ("w", idx) or ("s", text)
    for it in sentence.items:
        if isinstance(it, WordItem):
            if cur is not None:
                return None
            cur = ("w", it.idx)
        elif isinstance(it, str) and it == " ":
            if cur is None:
                return None
            out.append(cur)
            cur = None
        elif isinstance(it, str):
            if cur is None:
                cur = ("s", it)
            elif cur[0] == "s":
                cur = ("s", cur[1] + it)
            else:
                return None
        else:
            return None
    if cur is None:
        return None if out else []
    out.append(cur)
    res = []
    for kind, v in out:
        if kind == "w":
            res.append(v)
        elif v in wl:
            res.append(wl.index(v))
        else:
            return None
    return res


def ref_indexes(E, ent_bytes):
    """BIP39: entropy || first ENT/32 bits of SHA256(entropy), split into 11-bit groups"""
    n = len(ent_bytes)
    ent = 8 * n
    cs = ent // 32
    h = ifb(E.H.sha256(ent_bytes), "big")
    big = (ifb(ent_bytes, "big") << cs) | (h >> (256 - cs))
    m = (ent + cs) // 11
    return [(big >> (11 * (m - 1 - j))) & 2047 for j in range(m)]


def _hex(E, b, upper):
    h = b.hex()
    return h.upper() if upper else h


def encode(E, R, nbytes, upper, via_wallet):
    ent = E.bytes("ent", nbytes)
    hx = _hex(E, ent, upper)
    if via_wallet:
        r = E.run(R.base_wallet.BaseWallet.from_entropy_hex, hx)
        s = r if isinstance(r, Raised) else r.mnemonic
    else:
        s = E.run(R.bip39.mnemonic_from_entropy, hx)
    if isinstance(s, Raised):
        E.fail("entropy of a valid size is encoded")
        return "raised"
    idx = word_indexes(E, R, s)
    if idx is None:
        E.fail("sentence is words of the list separated by single blanks")
        return "malformed"
    E.check(len(idx) == {16: 12, 20: 15, 24: 18, 28: 21, 32: 24}[nbytes], "word count is 12/15/18/21/24")
    ref = ref_indexes(E, ent)
    E.check_eq(idx, ref, "word indexes == 11-bit groups of entropy || checksum")
    return "ok"


def two_calls(E, R, n1, n2, via_wallet):
    """two requests in one process: what the second one returns (or that it is refused) depends on its own entropy only.
    The second entropy extends the first one by leading zero bytes or is unrelated -- whatever an earlier call left
    behind (memo tables keyed by a value that identifies the entropy only up to leading zeros, say) must not matter."""
    f = R.base_wallet.BaseWallet.from_entropy_hex if via_wallet else R.bip39.mnemonic_from_entropy
    e1 = E.bytes("ent", n1)
    if n2 >= n1:
        e2 = b"\x00" * (n2 - n1) + e1          # same numeric value, more leading zero bytes
    else:
        e2 = E.bytes("ent2", n2)
    r1 = E.run(f, e1.hex())
    r2 = E.run(f, e2.hex() if n2 else "")
    for r, e, n, which in ((r1, e1, n1, "first"), (r2, e2, n2, "second")):
        if n not in VALID:
            E.check(isinstance(r, Raised), "entropy of any other size is rejected (%s of two requests)" % which)
            continue
        if isinstance(r, Raised):
            E.fail("entropy of a valid size is encoded (%s of two requests)" % which)
            continue
        s = r.mnemonic if via_wallet else r
        idx = word_indexes(E, R, s)
        if idx is None:
            E.fail("sentence is words of the list separated by single blanks")
            continue
        E.check_eq(idx, ref_indexes(E, e), "word indexes == 11-bit groups of entropy || checksum (%s of two requests)" % which)
    return "ok"


def reject(E, R, lo, hi, via_wallet):
    n = E.choose("n", lo, hi)
    if n in VALID:
        return "valid-size"
    ent = E.bytes("ent", n)
    hx = ent.hex() if n else ""
    f = R.base_wallet.BaseWallet.from_entropy_hex if via_wallet else R.bip39.mnemonic_from_entropy
    r = E.run(f, hx)
    E.check(isinstance(r, Raised), "entropy of any other size is rejected")
    return "rejected"


def odd(E, R, n):
    """odd number of hex digits"""
    ent = E.bytes("ent", n)
    hx = ent.hex()[:-1]
    r = E.run(R.bip39.mnemonic_from_entropy, hx)
    E.check(isinstance(r, Raised), "odd nibble count is rejected")
    return "rejected"


def blanks(E, R, lo, hi, nblank):
    """hex text with blanks at byte boundaries: bytes.fromhex skips them, so the text is longer than
    its entropy; result must be a rejection or the lossless encoding of the decoded bytes"""
    n = E.choose("n", lo, hi)
    ent = E.bytes("ent", n)
    hx = ent.hex() if n else ""
    pos = [E.choose("pos%d" % i, 0, n) for i in range(nblank)]
    pos.sort()
    parts = list(hx) if isinstance(hx, str) else list(hx)
    out = []
    for j in range(n + 1):
        for p in pos:
            if p == j:
                out.append(" ")
        if j < n:
            out.extend(parts[2 * j:2 * j + 2])
    from sx.values import _mkstr
    text = _mkstr(out)
    r = E.run(R.bip39.mnemonic_from_entropy, text)
    if n not in VALID:
        E.check(isinstance(r, Raised), "blank-padded entropy of another size is rejected")
        return "rejected"
    if isinstance(r, Raised):
        return "rejected-valid"
    idx = word_indexes(E, R, r)
    if idx is None:
        E.fail("sentence is words of the list separated by single blanks")
        return "malformed"
    E.check_eq(idx, ref_indexes(E, ent), "blank-padded valid entropy, if accepted, is encoded losslessly")
    return "lossless"


def wordlist(E, R):
    wl = list(R.bip39.word_list)
    E.check(len(wl) == 2048 and len(set(wl)) == 2048, "2048 distinct words")
    E.check(hashlib.sha256(("\n".join(wl) + "\n").encode()).hexdigest() == OFFICIAL_SHA256,
            "word list is the official english.txt (SHA-256 of the file)")
    import btc_hd_wallet.bip39_wordlist as m
    E.check(list(m.word_list) == wl, "bip39 uses the embedded list")
    return "ok"


def validators(E, R):
    """correct_entropy_bits_value accepts exactly the five sizes (unbounded integer)"""
    v = E.int("bits")
    r = E.run(R.bip39.correct_entropy_bits_value, v)
    ok = (v == 128) | (v == 160) | (v == 192) | (v == 224) | (v == 256) if E.symbolic else v in (128, 160, 192, 224, 256)
    if isinstance(r, Raised):
        E.check(~ok if E.symbolic else not ok, "validator rejects only other sizes")
        return "rej"
    E.check(ok, "validator accepts only the five sizes")
    return "acc"


def cases(tier):
    cs = []
    for n in VALID:
        for upper in (False, True):
            for via in (False, True):
                if via and upper:
                    continue
                cs.append(Case("encode[%d,upper=%s,wallet=%s]" % (n, upper, via), "encode",
                               dict(nbytes=n, upper=upper, via_wallet=via), weight=n,
                               need=("word indexes == 11-bit groups of entropy || checksum", "word count is 12/15/18/21/24")))
    for lo in range(0, 65, 8):
        for via in (False, True):
            cs.append(Case("reject[%d..%d,wallet=%s]" % (lo, min(lo + 7, 64), via), "reject",
                           dict(lo=lo, hi=min(lo + 7, 64), via_wallet=via), need=("entropy of any other size is rejected",)))
    for n in (1, 16, 17, 20, 32, 33):
        cs.append(Case("odd[%d]" % n, "odd", dict(n=n), need=("odd nibble count is rejected",)))
    for lo in range(0, 41, 5):
        cs.append(Case("blanks1[%d..%d]" % (lo, min(lo + 4, 40)), "blanks", dict(lo=lo, hi=min(lo + 4, 40), nblank=1),
                       max_paths=50000, weight=lo + 1))
    for lo in ((15, 16, 17, 19, 20, 21) if tier == "quick" else range(0, 41)):
        cs.append(Case("blanks2[%d]" % lo, "blanks", dict(lo=lo, hi=lo, nblank=2),
                       max_paths=100000, weight=2 * lo + 1))
    for (n1, n2, via) in ((16, 20, True), (16, 17, True), (20, 32, False), (16, 16, True), (32, 16, True), (24, 28, True)):
        cs.append(Case("two_calls[%d,%d,wallet=%s]" % (n1, n2, via), "two_calls", dict(n1=n1, n2=n2, via_wallet=via), weight=n1 + n2))
    cs.append(Case("wordlist", "wordlist", need=("word list is the official english.txt (SHA-256 of the file)",)))
    cs.append(Case("validators", "validators", need=("validator accepts only the five sizes",)))
    return cs


def vectors():
    """tests/test_bip39.py entropy/mnemonic pairs (entropy side)"""
    v = []
    for hx in ("00000000000000000000000000000000", "7f7f7f7f7f7f7f7f7f7f7f7f7f7f7f7f", "ffffffffffffffffffffffffffffffff",
               "8080808080808080808080808080808080808080808080808080808080808080", "f585c11aec520db57dd353c69554b21a89b20fb0650966fa0a9d6f74fd989d8f",
               "9e885d952ad362caeb4efe34a8e91bd2", "6610b25967cdcca9d59875f5cb50b0ea75433311869e930b"):
        v.append(("encode", dict(nbytes=len(hx) // 2, upper=False, via_wallet=False), {"ent": hx}))
    v.append(("reject", dict(lo=0, hi=64, via_wallet=False), {"n": 8, "ent": "00" * 8}))
    v.append(("blanks", dict(lo=0, hi=40, nblank=1), {"n": 16, "ent": "01" * 16, "pos0": 16}))
    return v
