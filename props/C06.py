"""C06 -- paper-wallet records are mutually consistent and follow BIP44/49/84."""
from sx.runner import Case
from sx.harness import Raised
from props import common as cm, h_wallet as hw
from props.common import HARD, SLIP132

ID = "C06"
FUNCTIONS = ["btc_hd_wallet.paper_wallet.PaperWallet.generate", "btc_hd_wallet.paper_wallet.PaperWallet.bip44",
             "btc_hd_wallet.paper_wallet.PaperWallet.bip49", "btc_hd_wallet.paper_wallet.PaperWallet.bip84",
             "btc_hd_wallet.paper_wallet.PaperWallet.group", "btc_hd_wallet.paper_wallet.PaperWallet.bip44_group",
             "btc_hd_wallet.paper_wallet.PaperWallet.bip49_group", "btc_hd_wallet.paper_wallet.PaperWallet.bip84_group",
             "btc_hd_wallet.paper_wallet.PaperWallet.master_data", "btc_hd_wallet.paper_wallet.PaperWallet.bip85_data",
             "btc_hd_wallet.paper_wallet.PaperWallet.json", "btc_hd_wallet.paper_wallet.PaperWallet.wasabi_json",
             "btc_hd_wallet.base_wallet.BaseWallet.node_extended_keys", "btc_hd_wallet.base_wallet.BaseWallet.node_extended_public_key",
             "btc_hd_wallet.base_wallet.BaseWallet.node_extended_private_key", "btc_hd_wallet.base_wallet.BaseWallet.determine_node_version_int",
             "btc_hd_wallet.base_wallet.BaseWallet.by_path", "btc_hd_wallet.base_wallet.BaseWallet.p2pkh_address",
             "btc_hd_wallet.base_wallet.BaseWallet.p2sh_p2wpkh_address", "btc_hd_wallet.base_wallet.BaseWallet.p2wpkh_address",
             "btc_hd_wallet.wallet_utils.Version.__init__", "btc_hd_wallet.wallet_utils.Version.__int__",
             "btc_hd_wallet.wallet_utils.Bip32Path.__init__", "btc_hd_wallet.wallet_utils.Bip32Path.to_list",
             "btc_hd_wallet.wallet_utils.Bip32Path.bip", "btc_hd_wallet.wallet_utils.Bip32Path.parse",
             "btc_hd_wallet.bip32.PubKeyNode.__repr__", "btc_hd_wallet.bip32.PubKeyNode.generate_children",
             "btc_hd_wallet.bip32.PubKeyNode.derive_path", "btc_hd_wallet.keys.PrivateKey.wif", "btc_hd_wallet.bech32.encode"]
BOUNDS = {"quick": {"values": "master key/chain code free; account free in [0, 2^31); interval [start, start+len) with start free in "
                              "[0, 2^31-len] (the exclusive end may equal 2^31); both networks", "interval length": "0..3"},
          "thorough": {"values": "as quick", "interval length": "0..6"}}
BOUNDS_ADDED = 'wallets without mnemonic/passphrase (None entries) through json()'
for _t in ("quick", "thorough"):
    BOUNDS[_t]["histories, lifetimes, injected faults, boundary vectors"] = BOUNDS_ADDED
STUBS = ["child derivation -> contract summary CKDK/CKDC (verified on the real code in C01/C02/C18)", "Base58Check -> summary",
         "HASH160/SHA-256 -> uninterpreted; secp256k1 -> group model", "mnemonic_from_entropy -> MNEM summary (C04)",
         "json.dumps -> recording stub", "mnemonic/passphrase -> opaque text"]
ASSUMPTIONS = ["every derived child is valid (invalid children: C18)", "rows are produced by one comprehension over range(): longer "
               "intervals repeat the verified row construction"]
OUTSIDE = ["the json module", "interval lengths > 6"]
LEVEL_TEXT = ("Symbolic execution of the real PaperWallet.generate/json/wasabi_json with free master key, account and interval "
              "start: every account path, SLIP-132 version, extended key payload, row path, address, SEC hex and WIF payload is "
              "compared with a reference derivation by solver queries.")
LEVEL_NOTE = "Trusted: z3, ckd contract (C01), group model, Base58Check summary, reference Bech32 decoder."


# a counterexample may hinge on a property of a hash value the model abstracts (e.g. a fingerprint with a leading zero
# nibble, probability 1/16): the replay then re-draws the master key material at random for a bounded time
RANDOM_REPLAY = {"inputs": {"k": 32, "c": 32}, "always": True, "seconds": 45}


def setup_sym(R):
    hw.setup_wallet_sym(R)


def generate(E, R, testnet, ln, with_text=True):
    """with_text=False: a wallet built from a seed or an extended key has no mnemonic / passphrase to echo (both None)"""
    w, k, c = hw.mk_wallet(E, R, testnet, with_text=with_text)
    account = E.bv("account", 31)
    start, end = hw.interval(E, ln)
    data = E.run(w.generate, account, (start, end))
    if isinstance(data, Raised):
        # only legitimate when a BIP85 secret is invalid (C18); every other failure is a violation
        from btc_hd_wallet.bip32 import InvalidKeyError
        E.check(isinstance(data.exc, InvalidKeyError), "generate succeeds for every valid account and interval")
        return "invalid-bip85"
    hw.check_generated(E, R, data, k, c, testnet, account, start, ln, w.mnemonic, w.password)
    # json() of that mapping
    js = E.run(w.json, data)
    if E.symbolic:
        E.check(isinstance(js, hw.JsonDump) and (js.obj is data or _same(js.obj, data)), "json(data) is json.dumps of exactly that mapping")
    else:
        import json
        E.check(json.loads(js) == data, "JSON rendering parses back to the same data")
    return "ok"


def _same(a, b):
    """structural identity of two JSON-able values built from the same leaves (keys, order of rows, None entries)"""
    if isinstance(a, dict) and isinstance(b, dict):
        return list(a.keys()) == list(b.keys()) and all(_same(a[k], b[k]) for k in a)
    if isinstance(a, (list, tuple)) and isinstance(b, (list, tuple)):
        return len(a) == len(b) and all(_same(x, y) for x, y in zip(a, b))
    return a is b or (type(a) is type(b) and isinstance(a, (str, int, bool, type(None))) and a == b)


def generate_twice(E, R, testnet, ln1, ln2, same_account):
    """a second request on the same wallet object is answered like a first one"""
    w, k, c = hw.mk_wallet(E, R, testnet)
    a1 = E.bv("account", 31)
    a2 = a1 if same_account else E.bv("account2", 31)
    s1 = E.bv("start", 32, hi=2 ** 31 - ln1)
    s2 = E.bv("start2", 32, hi=2 ** 31 - ln2)
    d1 = E.run(w.generate, a1, (s1, s1 + ln1))
    d2 = E.run(w.generate, a2, (s2, s2 + ln2))
    if isinstance(d1, Raised) or isinstance(d2, Raised):
        return "invalid-bip85"
    hw.check_generated(E, R, d2, k, c, testnet, a2, s2, ln2, w.mnemonic, w.password, prefix="second request: ")
    return "ok"


def from_mnemonic(E, R, testnet):
    """the wallet is built by from_mnemonic: MASTER echoes exactly the text the keys were derived from"""
    from sx.instrument import sx_int_from_bytes as ifb
    if E.symbolic:
        from sx import text
        m, p = text.fresh("mnemonic"), text.fresh("password")
    else:
        m, p = E.w.get("_m", "legal winner thank year wave sausage worth useful legal winner thank  yellow"), E.w.get("_p", " pw ")
    w = E.run(R.paper_wallet.PaperWallet.from_mnemonic, m, p, testnet)
    if isinstance(w, Raised):
        return "invalid-master"
    data = E.run(w.generate, 0, (0, 1))
    if isinstance(data, Raised):
        return "invalid-bip85"
    ms = data["MASTER"]
    E.check_eq([ms["mnemonic"], ms["password"]], [m, p], "MASTER echoes the mnemonic and passphrase the wallet was built from")
    import hashlib, unicodedata
    if E.symbolic:
        from props.C03 import ref_seed, ref_master
        key, cc = ref_master(E, ref_seed(E, m, p))
    else:
        import hmac
        seed = hashlib.pbkdf2_hmac("sha512", unicodedata.normalize("NFKD", m).encode(), ("mnemonic" + unicodedata.normalize("NFKD", p)).encode(), 2048)
        I = hmac.new(b"Bitcoin seed", seed, hashlib.sha512).digest()
        key, cc = I[:32], I[32:]
    E.check_eq([w.master.key, w.master.chain_code], [key, cc], "the keys are those of that mnemonic and passphrase")
    return "ok"


def wasabi(E, R, testnet):
    w, k, c = hw.mk_wallet(E, R, testnet)
    js = E.run(w.wasabi_json)
    if isinstance(js, Raised):
        E.fail("wasabi_json works")
        return "raised"
    if E.symbolic:
        obj = js.obj
    else:
        import json
        obj = json.loads(js)
    idxs = [84 + HARD, HARD, HARD]
    ka, ca, kpar = hw.derive(E, k, c, idxs)
    E.check(set(obj.keys()) == {"ExtPubKey", "MasterFingerprint", "ColdCardFirmwareVersion"}, "wasabi fields")
    E.check_eq(cm.b58_payload(E, R, obj["ExtPubKey"]),
               cm.xkey_payload(cm.XPUB["test" if testnet else "main"], 3, cm.fingerprint(E, kpar), HARD, ca, E.H.sec(ka)),
               "Wasabi ExtPubKey is the extended public key at m/84'/0'/0'")
    fpr = cm.fingerprint(E, k).hex()
    E.check_eq(obj["MasterFingerprint"], fpr.upper(), "Wasabi MasterFingerprint is the master key's fingerprint (upper-case hex)")
    return "ok"


def cases(tier):
    cs = []
    for t in (False, True):
        cs.append(Case("generate[testnet=%s,len=1,no mnemonic]" % t, "generate", dict(testnet=t, ln=1, with_text=False), weight=20, max_paths=5000,
                       need=("json(data) is json.dumps of exactly that mapping",)))
    for t in (False, True):
        for ln in range(0, (3 if tier == "quick" else 6) + 1):
            cs.append(Case("generate[testnet=%s,len=%d]" % (t, ln), "generate", dict(testnet=t, ln=ln), weight=10 * (ln + 1), max_paths=5000,
                           need=("BIP84 account xpub: SLIP-132 version and fields of the account node",) +
                           (("BIP49 row WIF decodes to the key at the stated path",) if ln else ())))
        cs.append(Case("from_mnemonic[testnet=%s]" % t, "from_mnemonic", dict(testnet=t), weight=8, max_paths=5000,
                       need=("MASTER echoes the mnemonic and passphrase the wallet was built from",)))
        cs.append(Case("wasabi[testnet=%s]" % t, "wasabi", dict(testnet=t), need=("Wasabi ExtPubKey is the extended public key at m/84'/0'/0'",)))
    for (l1, l2, same) in ((1, 2, True), (1, 3, True), (2, 1, True), (1, 1, False)):
        cs.append(Case("twice[%d,%d,same=%s]" % (l1, l2, same), "generate_twice", dict(testnet=False, ln1=l1, ln2=l2, same_account=same),
                       weight=40, max_paths=20000, need=("second request: BIP84 account xpub: SLIP-132 version and fields of the account node",)))
    return cs


def vectors():
    k = "e8f32e723decf4051aefac8e2c93c9c5b214313817cdb01a1494b917c8436b35"
    c = "873dff81c02f525623fd1fe5167eac3a55a049de3d314bb42ee227ffed37d508"
    return [("generate", dict(testnet=False, ln=2), {"k": k, "c": c, "account": 0, "start": 0}),
            ("generate", dict(testnet=True, ln=1), {"k": k, "c": c, "account": 66, "start": 2 ** 31 - 1}),
            ("wasabi", dict(testnet=False), {"k": k, "c": c})]
