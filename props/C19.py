"""C19 -- script and varint wire encodings.

Every harness function here is run twice: symbolically (inputs = solver variables, assertions =
solver queries per path of the real Script.parse / raw_serialize / read_varint / encode_varint)
and natively on each witness (replay).
"""
from sx.runner import Case
from sx.harness import Raised
from sx.values import concretize_small

ID = "C19"
FUNCTIONS = ["btc_hd_wallet.script.Script.parse", "btc_hd_wallet.script.Script.raw_serialize",
             "btc_hd_wallet.script.Script.serialize", "btc_hd_wallet.script.Script.__eq__",
             "btc_hd_wallet.helper.read_varint", "btc_hd_wallet.helper.encode_varint",
             "btc_hd_wallet.helper.read_exact", "btc_hd_wallet.helper.int_to_little_endian",
             "btc_hd_wallet.helper.little_endian_to_int"]
BOUNDS = {
    "quick": {"element_length": "every length 0..521 (content symbolic)", "parse_input": "every byte string of length 0..7",
              "roundtrip": "scripts of <=3 commands from {opcode byte in {0} u [78,255] (symbolic), element of length 1,2,75,76,255,256,520 (symbolic content)}",
              "truncation": "every proper prefix of the serialisation of every 1-command script (opcode or element of length 1,2,75,76,255,256,520) and of 2-command scripts over {opcode, 1-byte, 76-byte element}",
              "varint": "every integer 0 <= i < 2^72 (bit-vector) and every integer >= 2^64 (unbounded Int)"},
    "thorough": {"element_length": "every length 0..521", "parse_input": "every byte string of length 0..9",
                 "roundtrip": "scripts of <=4 commands", "truncation": "as quick plus 3-command scripts",
                 "varint": "as quick"},
}
BOUNDS_ADDED = 'a refused script (element over 520 bytes after 0..2 valid commands) followed by a valid one: the valid one serialises to its own bytes'
for _t in ("quick", "thorough"):
    BOUNDS[_t]["histories, lifetimes, injected faults, boundary vectors"] = BOUNDS_ADDED
STUBS = ["io.BytesIO -> pure-Python reader over symbolic bytes (read(n) with symbolic n forks on min(n, remaining))"]
ASSUMPTIONS = ["CPython semantics of int.to_bytes/from_bytes, slicing and list equality as modelled by the engine "
               "(validated on every run against native execution of the repository's test vectors)"]
OUTSIDE = ["byte strings longer than the parse bound", "elements of length 0 (serialise to the same byte as OP_0; the "
           "property quantifies over 1..520)", "non-minimal pushes accepted by parse (not excluded by the statement)"]

OPCODES_NOTE = "opcode = any byte that is not a push prefix: 0 or 78..255"


# ---------------------------------------------------------------- independent reference (spec)
def spec_push_prefix(n):
    if 1 <= n <= 75:
        return bytes([n])
    if 76 <= n <= 255:
        return bytes([0x4c, n])
    if 256 <= n <= 520:
        return bytes([0x4d, n & 0xff, n >> 8])
    return None


def spec_varint_len(E, i):
    """length of the CompactSize encoding, as a value of the environment"""
    return E.ite(i < 0xfd, 1, E.ite(i <= 0xffff, 3, E.ite(i <= 0xffffffff, 5, 9)))


def spec_parse(b):
    """Bitcoin script wire format: CompactSize length, then commands; returns (cmds, consumed) or None.
    Written against the format description, not the repository."""
    pos = 0

    def take(n):
        nonlocal pos
        if pos + n > len(b):
            return None
        n = concretize_small(n, 0, len(b))
        r = b[pos:pos + n]
        pos += n
        return r
    h = take(1)
    if h is None:
        return None
    h = h[0]
    if h == 0xfd:
        nb = 2
    elif h == 0xfe:
        nb = 4
    elif h == 0xff:
        nb = 8
    else:
        nb = 0
    if nb:
        raw = take(nb)
        if raw is None:
            return None
        length = 0
        for k in range(nb):
            length = length + raw[k] * (256 ** k)
    else:
        length = h
    start = pos
    cmds = []
    while pos - start < length:
        c = take(1)
        if c is None:
            return None
        c = c[0]
        if 1 <= c <= 75:
            d = take(c)
            if d is None:
                return None
            cmds.append(d)
        elif c == 76:
            l = take(1)
            if l is None:
                return None
            d = take(l[0])
            if d is None:
                return None
            cmds.append(d)
        elif c == 77:
            l = take(2)
            if l is None:
                return None
            d = take(l[0] + 256 * l[1])
            if d is None:
                return None
            cmds.append(d)
        else:
            cmds.append(c)
    if pos - start != length:
        return None
    return cmds, pos


# ---------------------------------------------------------------- harnesses
def push_forms(E, R, lo, hi):
    n = E.choose("n", lo, hi)
    elem = E.bytes("elem", n)
    r = E.run(lambda: R.script.Script([elem]).raw_serialize())
    pre = spec_push_prefix(n)
    if n == 0:
        return "len0"
    if pre is None:
        E.check(isinstance(r, Raised), "element over 520 bytes refused")
        return "refused"
    if isinstance(r, Raised):
        E.fail("element of 1..520 bytes serialised", )
        return "raised"
    E.check_eq(r, pre + elem, "standard minimal push form")
    # and the length-prefixed form
    s = E.run(lambda: R.script.Script([elem]).serialize())
    if isinstance(s, Raised):
        E.fail("serialize() works for 1..520 byte element")
        return "raised2"
    total = len(pre) + n
    vi = bytes([total]) if total < 0xfd else b"\xfd" + bytes([total & 0xff, total >> 8])
    E.check_eq(s, vi + pre + elem, "serialize = CompactSize(len) + raw")
    return len(pre)


ELEM_LENS = [1, 2, 75, 76, 255, 256, 520]


def _mk_cmds(E, kinds):
    cmds = []
    for j, k in enumerate(kinds):
        if k == 0:
            op = E.bv("op%d" % j, 8)
            E.assume((op == 0) | (op >= 78))
            cmds.append(op)
        else:
            cmds.append(E.bytes("el%d" % j, ELEM_LENS[k - 1]))
    return cmds


def roundtrip(E, R, ncmd):
    kinds = [E.choose("kind%d" % j, 0, len(ELEM_LENS)) for j in range(ncmd)]
    cmds = _mk_cmds(E, kinds)
    S = R.script.Script(list(cmds))
    ser = E.run(S.serialize)
    if isinstance(ser, Raised):
        E.fail("serialize() of a script with opcodes and 1..520 byte elements")
        return "raised"
    rd = E.reader(ser)
    P = E.run(R.script.Script.parse, rd)
    if isinstance(P, Raised):
        E.fail("parse(serialize(S)) accepted")
        return "rejected"
    E.check_eq(P.cmds, cmds, "parse(serialize(S)) == S")
    E.check(rd.pos == len(ser), "parse consumed the whole serialisation")
    return tuple(kinds)


def after_refusal(E, R, pos):
    """a script that is refused (an element over 520 bytes at position pos, after pos valid commands) leaves nothing
    behind: the next script -- on the same or another Script object -- serialises to exactly its own bytes"""
    op = E.bv("op", 8)
    E.assume((op == 0) | (op >= 78))
    small = E.bytes("small", 3)
    big = E.bytes("big", 521)
    bad = [op, small][:pos] + [big]
    r = E.run(lambda: R.script.Script(list(bad)).raw_serialize())
    E.check(isinstance(r, Raised), "element over 520 bytes refused (after valid commands)")
    el = E.bytes("el", 2)
    good = R.script.Script([el, op])
    g = E.run(good.raw_serialize)
    if isinstance(g, Raised):
        E.fail("a valid script serialises after another one was refused")
        return "raised"
    E.check_eq(g, b"\x02" + el + bytes_of(op), "a valid script serialises to its own bytes after another one was refused")
    g2 = E.run(good.serialize)
    E.check_eq(g2 if isinstance(g2, Raised) else g2, b"\x04\x02" + el + bytes_of(op), "serialize() after a refusal: CompactSize(len) + raw")
    return "ok"


def bytes_of(op):
    from sx.values import SxBytes
    return bytes([op]) if isinstance(op, int) else SxBytes([op])


def truncation(E, R, ncmd, kinds):
    kinds = [kinds[E.choose("kind%d" % j, 0, len(kinds) - 1)] for j in range(ncmd)]
    cmds = _mk_cmds(E, kinds)
    ser = R.script.Script(list(cmds)).serialize()
    cut = E.choose("cut", 0, len(ser) - 1)
    rd = E.reader(ser[:cut])
    P = E.run(R.script.Script.parse, rd)
    E.check(isinstance(P, Raised), "truncated serialisation rejected")
    return "ok"


def parse_sound(E, R, n):
    b = E.bytes("b", n)
    rd = E.reader(b)
    P = E.run(R.script.Script.parse, rd)
    ref = spec_parse(b)
    if isinstance(P, Raised):
        E.check(ref is None, "input valid per the wire format is accepted")
        return "rej"
    if ref is None:
        E.fail("input that ends early / mis-declares its length is rejected")
        return "acc!"
    E.check(rd.short_reads == 0, "no read came back short on an accepted input")
    E.check_eq(P.cmds, ref[0], "parsed commands equal the reference parse")
    E.check(rd.pos == ref[1], "consumed exactly CompactSize + declared bytes")
    # a parsed script serialises like any other script: standard minimal push for every element
    def is_elem(c):
        return isinstance(c, (bytes, bytearray)) or hasattr(c, "bs")
    if all((not is_elem(c)) or 1 <= len(c) <= 520 for c in ref[0]):
        exp = b""
        for c in ref[0]:
            if is_elem(c):
                exp = exp + spec_push_prefix(len(c)) + c
            else:
                exp = exp + (bytes([c]) if isinstance(c, int) else c.to_bytes(1, "little"))
        rs = E.run(P.raw_serialize)
        E.check_eq(rs if not isinstance(rs, Raised) else None, exp, "a parsed script re-serialises with standard minimal pushes")
    return "acc"


def varint_bv(E, R):
    i = E.bv("i", 72)
    r = E.run(R.helper.encode_varint, i)
    if isinstance(r, Raised):
        E.check(i >= 2 ** 64, "values below 2^64 are encoded")
        return "refused"
    E.check(i < 2 ** 64, "values >= 2^64 are refused")
    E.check_eq(len(r), spec_varint_len(E, i), "shortest standard form")
    rd = E.reader(r)
    j = E.run(R.helper.read_varint, rd)
    if isinstance(j, Raised):
        E.fail("read_varint(encode_varint(i)) decodes")
        return "undecodable"
    E.check_eq(j, i, "read_varint(encode_varint(i)) == i")
    E.check(rd.pos == len(r), "read_varint consumed the encoding")
    # first byte is the standard marker
    E.check_eq(r[0], E.ite(i < 0xfd, i, E.ite(i <= 0xffff, 0xfd, E.ite(i <= 0xffffffff, 0xfe, 0xff))), "marker byte")
    # a truncated encoding is never accepted
    if len(r) > 1:
        cut = E.choose("cut", 0, len(r) - 1)
        t = E.run(R.helper.read_varint, E.reader(r[:cut]))
        E.check(isinstance(t, Raised), "truncated varint rejected")
    return len(r)


def varint_big(E, R):
    i = E.int("i", lo=2 ** 64)
    r = E.run(R.helper.encode_varint, i)
    E.check(isinstance(r, Raised), "values >= 2^64 are refused")
    return "refused"


def varint_decode(E, R, n):
    b = E.bytes("b", n)
    rd = E.reader(b)
    v = E.run(R.helper.read_varint, rd)
    if n == 0:
        E.check(isinstance(v, Raised), "empty input rejected")
        return "empty"
    h = b[0]
    need = E.ite(h == 0xfd, 3, E.ite(h == 0xfe, 5, E.ite(h == 0xff, 9, 1)))
    if isinstance(v, Raised):
        E.check(need > n, "complete varint decodes")
        return "rej"
    E.check(need <= n, "short varint rejected")
    E.check(rd.short_reads == 0, "no short read accepted")
    E.check_eq(rd.pos, need, "consumed marker + payload")
    return "acc"


def cases(tier):
    cs = []
    step = 29
    for lo in range(0, 522, step):
        cs.append(Case("push[%d..%d]" % (lo, min(lo + step - 1, 521)), "push_forms",
                       dict(lo=lo, hi=min(lo + step - 1, 521)), need=("standard minimal push form",) if lo < 500 else ()))
    cs.append(Case("push[521..523]", "push_forms", dict(lo=521, hi=523), need=("element over 520 bytes refused",)))
    for pos in (0, 1, 2):
        cs.append(Case("after_refusal[%d]" % pos, "after_refusal", dict(pos=pos),
                       need=("a valid script serialises to its own bytes after another one was refused",)))
    for k in range(1, 4 if tier == "quick" else 5):
        cs.append(Case("roundtrip[%d]" % k, "roundtrip", dict(ncmd=k), need=("parse(serialize(S)) == S",), weight=k * 3))
    allk = list(range(len(ELEM_LENS) + 1))
    tr = [(1, allk), (2, [0, 1, 4])] if tier == "quick" else [(1, allk), (2, [0, 1, 3, 4, 5, 6]), (3, [0, 1, 4])]
    for k, kinds in tr:
        cs.append(Case("truncation[%d]" % k, "truncation", dict(ncmd=k, kinds=kinds),
                       need=("truncated serialisation rejected",), weight=k * 40, max_paths=400000))
    top = 7 if tier == "quick" else 9
    for n in range(0, top + 1):
        cs.append(Case("parse[%d]" % n, "parse_sound", dict(n=n), max_paths=400000, weight=3 ** max(0, n - 2),
                       need=() if n == 0 else ("input valid per the wire format is accepted",)))
    cs.append(Case("varint<2^72", "varint_bv", need=("read_varint(encode_varint(i)) == i", "shortest standard form",
                                                      "values >= 2^64 are refused", "truncated varint rejected")))
    cs.append(Case("varint>=2^64", "varint_big", need=("values >= 2^64 are refused",)))
    for n in (0, 1, 2, 3, 4, 5, 8, 9, 10):
        cs.append(Case("varint_decode[%d]" % n, "varint_decode", dict(n=n)))
    return cs


def vectors():
    """inputs taken from /repo/tests/test_script.py and test_helper.py"""
    v = []
    for i in (0, 1, 0xfc, 0xfd, 0xffff, 0x10000, 0xffffffff, 0x100000000, 2 ** 64 - 1, 2 ** 64):
        v.append(("varint_bv", {}, {"i": i, "cut": 0}))
    sp = "6a47304402207899531a52d59a6de200179928ca900254a36b8dff8bb75f5f5d71b1cdc26125022008b422690b8461cb52c3cc30330b23d574351872b7c361e9aae3649071c1a7160121035d5c93d9ac96881f19ba1f686f15f009ded7c62efe85a872e6a19b43c15a2937"
    b = bytes.fromhex(sp)
    v.append(("parse_sound", {"n": len(b)}, {"b": b.hex()}))
    v.append(("parse_sound", {"n": 3}, {"b": "020151"}))
    v.append(("parse_sound", {"n": 2}, {"b": "0201"}))
    v.append(("push_forms", {"lo": 0, "hi": 521}, {"n": 75, "elem": "ab" * 75}))
    v.append(("push_forms", {"lo": 0, "hi": 521}, {"n": 257, "elem": "cd" * 257}))
    return v

LEVEL_TEXT = ("Bounded symbolic model checking of the real Script.parse/raw_serialize/serialize and "
              "read_varint/encode_varint: every byte string up to the stated length, every element length "
              "0..521 with symbolic content, every integer below 2^72 and every integer >= 2^64 are covered by "
              "solver queries (unsat = no violating input exists inside the bound); witnesses are replayed natively.")
LEVEL_NOTE = ("Trusted: z3, the engine's models of int/bytes/list primitives (validated each run against native "
              "execution on the repository's own test vectors), CPython. Outside: inputs longer than the bounds.")
