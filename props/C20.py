"""C20 -- CLI: bad arguments yield no wallet output; good ones equal the API result.

argparse itself (2.6 kLoC of stdlib string handling) is not encoded.  Its documented contract is used
instead: every raw value goes through its `type=` callable; ArgumentError / ArgumentTypeError / TypeError /
ValueError from it => message on stderr, exit status 2, nothing on stdout.  Which callable belongs to which
option is read from the live parser on every run, and the contract is validated by concrete end-to-end runs
of `python -m btc_hd_wallet` (the vectors)."""
import argparse
import json
import os
import subprocess
import sys
import tempfile

from sx.runner import Case
from sx.harness import Raised
from sx.instrument import sx_str
from props import common as cm, h_wallet as hw
from props.common import HARD

ID = "C20"
FUNCTIONS = ["btc_hd_wallet.__main__.value_in_interval", "btc_hd_wallet.__main__.address_index", "btc_hd_wallet.__main__.account_index",
             "btc_hd_wallet.__main__.extended_key", "btc_hd_wallet.__main__.mnemonic", "btc_hd_wallet.__main__.bip39_seed",
             "btc_hd_wallet.__main__.entropy_hex", "btc_hd_wallet.__main__.file_", "btc_hd_wallet.__main__.paranoia_mode",
             "btc_hd_wallet.__main__.main", "btc_hd_wallet.__main__.parse_args (option -> validator binding read from the live parser)",
             "btc_hd_wallet.paper_wallet.PaperWallet.pprint", "btc_hd_wallet.paper_wallet.PaperWallet.export_wallet",
             "btc_hd_wallet.paper_wallet.PaperWallet.export_to_file", "btc_hd_wallet.paper_wallet.PaperWallet.generate"]
BOUNDS = {"validators": "numeric options: every signed 64-bit integer rendered as a decimal numeral, plus every ASCII string of 1..3 characters; "
                        "length validators: every length 0..140 (content free); mnemonic: 0..26 words with optional outer blanks; "
                        "file: every combination of is_dir / exists / parent-writable, value = any 3 ASCII characters",
          "main": "six commands x both networks x paranoia on/off x file/stdout; account free in [0, 2^31-1), interval start free, length 0..1",
          "end to end": "29 concrete argument vectors through `python -m btc_hd_wallet` (both sides of every validator bound)"}
STUBS = ["argparse -> documented contract (validated by the end-to-end vectors)", "wallet constructors -> recorders returning a wallet over a "
         "symbolic master (constructors themselves: C03/C08)", "sys.stdout / open() -> recording sinks; pathlib.Path.is_dir/exists, os.access -> "
         "symbolic booleans", "as C06 for generate()"]
ASSUMPTIONS = ["argparse behaves as documented for type=, choices=, nargs=2, store_true and sub-parsers"]
OUTSIDE = ["argparse internals", "non-ASCII argument text"]
LEVEL_TEXT = ("Symbolic execution of every validator on free integers / strings and of the real main() on a symbolic parsed-argument "
              "namespace: accepted values lie in the documented sets, everything else raises one of the exceptions argparse turns into exit "
              "status 2; main() hands exactly the parsed values to the right constructor, emits exactly (filtered) generate() output to the "
              "requested channel and nothing else; end-to-end runs tie the argparse contract to the real program.")
TECHNIQUE = ("symbolic execution of the real Python source (AST-instrumented import, z3 terms), per-path SMT queries; bounded model "
             "checking; end-to-end runs of the real command on 79 argument vectors validate the argparse contract (concrete, not the deciding step)")
LEVEL_NOTE = "Trusted: z3, argparse contract, summaries of C06."
CONTRACT = (argparse.ArgumentError, argparse.ArgumentTypeError, TypeError, ValueError)


def setup_sym(R):
    hw.setup_wallet_sym(R)


def _rejected_ok(E, r, label):
    E.check(isinstance(r, Raised) and isinstance(r.exc, CONTRACT), label)


# ------------------------------------------------------------------------------- validators
def numeric(E, R, which):
    v = E.sbv("v")
    text = sx_str(v) if E.symbolic else str(v)
    f = getattr(R.main, which)
    r = E.run(f, text)
    if isinstance(r, Raised):
        _rejected_ok(E, r, "rejection uses an exception argparse reports as a usage error")
        if which == "account_index":
            E.check(~((v >= 0) & (v < HARD - 1)) if E.symbolic else not (0 <= v < HARD - 1), "documented account range is accepted")
        else:
            E.check(~((v >= 0) & (v < HARD)) if E.symbolic else not (0 <= v < HARD), "every non-hardened address index is accepted")
        return "rejected"
    E.check_eq(r, v, "validator returns the parsed number")
    if which == "account_index":
        E.check((v >= 0) & (v < HARD) if E.symbolic else 0 <= v < HARD, "accepted account index can be hardened (0 <= v < 2^31)")
    else:
        E.check((v >= 0) & (v < HARD) if E.symbolic else 0 <= v < HARD,
                "accepted address index is non-hardened (0 <= v < 2^31)")
    return "accepted"


def numeric_junk(E, R, which, n):
    t = E.chars("t", n, None, lo=0, hi=127)
    f = getattr(R.main, which)
    r = E.run(f, t)
    if isinstance(r, Raised):
        _rejected_ok(E, r, "rejection uses an exception argparse reports as a usage error")
        return "rejected"
    from sx.instrument import sx_int
    val = E.run(sx_int if E.symbolic else int, t)
    E.check(not isinstance(val, Raised), "accepted text is a decimal numeral")
    if not isinstance(val, Raised):
        E.check_eq(r, val, "validator returns the numeral's value")
    return "accepted"


def length_validator(E, R, which, lo, hi):
    n = E.choose("n", lo, hi)
    s = E.chars("s", n, None, lo=33, hi=126) if n else ""
    f = getattr(R.main, which)
    r = E.run(f, s)
    ok = {"extended_key": n == 111, "bip39_seed": n == 128, "entropy_hex": n * 4 in (128, 160, 192, 224, 256)}[which]
    if isinstance(r, Raised):
        _rejected_ok(E, r, "rejection uses an exception argparse reports as a usage error")
        E.check(not ok, "value of the documented length is accepted")
        return "rejected"
    E.check(ok, "value of any other length is rejected")
    E.check_eq(r, s, "validator returns the value unchanged")
    return "accepted"


def mnemonic_validator(E, R, lo, hi):
    k = E.choose("k", lo, hi)
    lead = E.choose("lead", 0, 1)
    trail = E.choose("trail", 0, 1)
    words = ["w%d" % i for i in range(k)]
    s = " " * lead + " ".join(words) + " " * trail
    r = E.run(R.main.mnemonic, s)
    count = len(s.split(" "))
    ok = count in (12, 15, 18, 21, 24)
    if isinstance(r, Raised):
        _rejected_ok(E, r, "rejection uses an exception argparse reports as a usage error")
        E.check(not ok, "sentence with 12/15/18/21/24 blank-separated tokens is accepted")
        return "rejected"
    E.check(ok, "sentence with another token count is rejected")
    E.check(r == s.strip(), "validator returns the sentence (outer blanks removed)")
    return "accepted"


def file_validator(E, R):
    import pathlib
    val = E.chars("path", 3, None, lo=32, hi=126)
    if E.symbolic:
        import z3
        from sx import instrument
        from sx.values import SxBool
        isdir, exists, writable = [SxBool(z3.Bool(n)) for n in ("is_dir", "exists", "writable")]
        E.ctx.inputs.append(("is_dir", "int", (z3.If(isdir.e, z3.IntVal(1), z3.IntVal(0)), True)))
        E.ctx.inputs.append(("exists", "int", (z3.If(exists.e, z3.IntVal(1), z3.IntVal(0)), True)))
        E.ctx.inputs.append(("writable", "int", (z3.If(writable.e, z3.IntVal(1), z3.IntVal(0)), True)))
        seen = []

        class FakePath:
            def __init__(self, p):
                self.p = p
                seen.append(p)
                self.parent = "."

            def is_dir(self):
                return isdir

            def exists(self):
                return exists | isdir
        instrument.register(pathlib.Path, FakePath)
        instrument.register(os.access, lambda p, mode: writable)
        try:
            r = E.run(R.main.file_, val)
        finally:
            instrument.unregister(pathlib.Path)
            instrument.unregister(os.access)
        ok = (~isdir) & (~exists) & writable
        if isinstance(r, Raised):
            _rejected_ok(E, r, "rejection uses an exception argparse reports as a usage error")
            E.check(~ok, "a new path in a writable directory is accepted")
            return "rejected"
        E.check(ok, "an existing path, a directory or an unwritable parent is rejected")
        E.check_eq(r, val, "the path that was checked is the path that is returned (and later written)")
        E.check(len(seen) >= 1 and all(E.eq(p, val) is True or p is val for p in seen), "the file-system checks look at the given path")
        return "accepted"
    # native: real file system
    with tempfile.TemporaryDirectory() as td:
        isd, ex, wr = (bool(E.w.get(n, 0)) for n in ("is_dir", "exists", "writable"))
        name = "".join(ch if ch not in "/\x00" else "_" for ch in val) or "x"
        sub = os.path.join(td, "d")
        os.mkdir(sub)
        path = os.path.join(sub, name)
        stripped = os.path.join(sub, name.strip() or "x")
        if isd:
            os.mkdir(path)
        elif ex:
            open(path, "w").write("sentinel")
        if not isd and not ex and name.strip() != name and name.strip():
            open(stripped, "w").write("sentinel")      # a neighbour whose name differs only by outer blanks
        if not wr:
            os.chmod(sub, 0o500)
        try:
            r = E.run(R.main.file_, path)
        finally:
            os.chmod(sub, 0o700)
        ok = (not isd) and (not ex) and (wr or os.geteuid() == 0)
        if isinstance(r, Raised):
            _rejected_ok(E, r, "rejection uses an exception argparse reports as a usage error")
            E.check(not ok, "a new path in a writable directory is accepted")
            return "rejected"
        E.check(ok, "an existing path, a directory or an unwritable parent is rejected")
        E.check(r == path, "the path that was checked is the path that is returned (and later written)")
    return "accepted"


def bindings(E, R):
    """which validator is bound to which option, read from the live parser"""
    if E.symbolic:
        argv = ["new"]
        try:
            parser, ns = R.main.parse_args(argv)
        except BaseException as e:          # SystemExit included
            E.fail("parse_args builds the parser")
            return "raised"
    else:
        parser, ns = R.main.parse_args(["new"])
    acts = {a.dest: a for a in parser._actions}
    M = R.main
    E.check(acts["file"].type is M.file_, "--file goes through file_")
    E.check(acts["account"].type is M.account_index and acts["account"].default == 0, "--account goes through account_index, default 0")
    E.check(acts["interval"].type is M.address_index and acts["interval"].nargs == 2 and list(acts["interval"].default) == [0, 20],
            "--interval takes two values through address_index, default [0, 20]")
    E.check(acts["testnet"].const is True and acts["paranoia"].const is True and acts["testnet"].default is False and
            acts["paranoia"].default is False, "--testnet and --paranoia are store_true flags")
    sub = [a for a in parser._actions if isinstance(a, argparse._SubParsersAction)][0]
    E.check(set(sub.choices) == {"new", "from-master-xprv", "from-mnemonic", "from-bip39-seed", "from-entropy-hex"}, "the five sub-commands")
    def t(cmd, dest):
        return {a.dest: a for a in sub.choices[cmd]._actions}[dest]
    E.check(t("from-master-xprv", "master_xprv").type is M.extended_key, "master_xprv goes through extended_key")
    E.check(t("from-mnemonic", "mnemonic").type is M.mnemonic, "mnemonic goes through mnemonic")
    E.check(t("from-bip39-seed", "seed_hex").type is M.bip39_seed, "seed_hex goes through bip39_seed")
    E.check(t("from-entropy-hex", "entropy_hex").type is M.entropy_hex, "entropy_hex goes through entropy_hex")
    E.check(list(t("new", "mnemonic_len").choices) == [12, 15, 18, 21, 24] and t("new", "mnemonic_len").type is int and
            t("new", "mnemonic_len").default == 24, "--mnemonic-len is an int restricted to 12/15/18/21/24, default 24")
    E.check(all(t(c, "password").default == "" for c in ("new", "from-mnemonic", "from-entropy-hex")), "--password defaults to the empty string")
    return "ok"


# ------------------------------------------------------------------------------- main()
class _Sink:
    def __init__(self, name):
        self.name = name
        self.writes = []

    def write(self, x):
        self.writes.append(x)
        return 0

    def flush(self):
        pass

    def __enter__(self):
        return self

    def __exit__(self, *a):
        return False


class _Exit(Exception):
    def __init__(self, status):
        self.status = status


class _Parser:
    def __init__(self):
        self.help = 0

    def print_help(self, *a):
        self.help += 1

    def exit(self, status=0, message=None):
        raise _Exit(status)


COMMANDS = ("new", "from-master-xprv", "from-mnemonic", "from-bip39-seed", "from-entropy-hex", None)
CTOR = {"new": "new_wallet", "from-master-xprv": "from_extended_key", "from-mnemonic": "from_mnemonic",
        "from-bip39-seed": "from_bip39_seed_hex", "from-entropy-hex": "from_entropy_hex"}


def main_wiring(E, R, command, testnet, paranoia, to_file, ln, ctor_raises=False):
    if not E.symbolic:
        return main_native(E, R, command, testnet, paranoia, to_file, ln, ctor_raises)
    import builtins
    from sx import instrument, text
    account = E.bv("account", 31)
    start, end = hw.interval(E, ln)
    ns = argparse.Namespace(command=command, testnet=testnet, paranoia=paranoia, account=account, interval=[start, end],
                            file="out.json" if to_file else None)
    extra = {}
    if command == "new":
        extra = dict(mnemonic_len=[12, 15, 18, 21, 24][ln % 5], password=text.fresh("password"))
    elif command == "from-master-xprv":
        extra = dict(master_xprv=text.fresh("xprv"))
    elif command == "from-mnemonic":
        extra = dict(mnemonic=text.fresh("mnemonic"), password=text.fresh("password"))
    elif command == "from-bip39-seed":
        extra = dict(seed_hex=text.fresh("seedhex"))
    elif command == "from-entropy-hex":
        extra = dict(entropy_hex=text.fresh("enthex"), password=text.fresh("password"))
    for k_, v_ in extra.items():
        setattr(ns, k_, v_)
    parser = _Parser()
    # one wallet over a symbolic master stands for "the wallet the constructor returns"
    w0, k, c = hw.mk_wallet(E, R, testnet)
    calls = []
    PW = R.paper_wallet.PaperWallet
    for name in set(CTOR.values()):
        def rec(cls, *a, _n=name, **kw):
            calls.append((_n, a, kw))
            if ctor_raises:
                raise ValueError("secret rejected by the library")
            return w0
        instrument.register(getattr(PW, name).__func__, rec)
    instrument.register(R.main.parse_args, lambda argv: (parser, ns))
    out, files = _Sink("stdout"), []

    def fake_open(path, mode="r", *a, **kw):
        f = _Sink(path)
        f.mode = mode
        files.append(f)
        return f
    instrument.register(builtins.open, fake_open)
    old = sys.stdout
    sys.stdout = out
    status = None
    try:
        try:
            r = E.run(R.main.main)
        except _Exit as ex:
            r, status = None, ex.status
    finally:
        sys.stdout = old
        for name in set(CTOR.values()):
            instrument.unregister(getattr(PW, name).__func__)
        instrument.unregister(R.main.parse_args)
        instrument.unregister(builtins.open)
    if isinstance(r, Raised) and isinstance(r.exc, _Exit):
        status, r = r.exc.status, None
    if command is None:
        E.check(status == 1 and parser.help == 1, "no command: help text and exit status 1")
        E.check(not out.writes and not files and not calls, "no command: no wallet is built and nothing is emitted")
        return "help"
    if ctor_raises:
        # a secret that passed the length validators but is refused by the library: the run must end with a
        # non-zero status (an escaping exception is status 1) and emit nothing
        E.check((isinstance(r, Raised) and status is None) or (status is not None and status != 0),
                "a secret the library rejects ends the run with a non-zero status")
        E.check(not out.writes and not files, "a failing run emits nothing")
        return "rejected-secret"
    if isinstance(r, Raised):
        from btc_hd_wallet.bip32 import InvalidKeyError
        E.check(isinstance(r.exc, InvalidKeyError), "main() completes for validated arguments")
        E.check(not out.writes and not files, "a failing run emits nothing")
        return "invalid-bip85"
    # the right constructor with exactly the parsed values
    E.check(len(calls) == 1 and calls[0][0] == CTOR[command] and not calls[0][1], "exactly one wallet is built, by the constructor of the sub-command")
    if len(calls) == 1:
        kw = calls[0][2]
        want = {"new": dict(mnemonic_length=ns.__dict__.get("mnemonic_len"), password=ns.__dict__.get("password"), testnet=testnet),
                "from-master-xprv": dict(extended_key=ns.__dict__.get("master_xprv")),
                "from-mnemonic": dict(mnemonic=ns.__dict__.get("mnemonic"), password=ns.__dict__.get("password"), testnet=testnet),
                "from-bip39-seed": dict(bip39_seed=ns.__dict__.get("seed_hex"), testnet=testnet),
                "from-entropy-hex": dict(entropy_hex=ns.__dict__.get("entropy_hex"), password=ns.__dict__.get("password"), testnet=testnet)}[command]
        E.check(set(kw) == set(want) and all(kw[x] is want[x] for x in want if x in kw),
                "the constructor receives exactly the parsed source secret, passphrase and network flag")
    # what the API returns for the same wallet, account and interval
    w1 = R.paper_wallet.PaperWallet(master=R.bip32.PrvKeyNode(key=w0.master.key, chain_code=w0.master.chain_code, testnet=testnet), testnet=testnet)
    w1.mnemonic, w1.password = w0.mnemonic, w0.password
    ref = E.run(w1.generate, account, (start, end))
    if isinstance(ref, Raised):
        return "reference-invalid-bip85"
    if paranoia:
        ref = R.main.paranoia_mode(ref)
    sink = files[0] if (to_file and files) else out
    if to_file:
        E.check(len(files) == 1 and files[0].name == "out.json" and files[0].mode == "w" and not out.writes,
                "--file: output goes to the requested file only, nothing to stdout")
    else:
        E.check(not files, "without --file no file is created")
    dumps = [x for x in sink.writes if isinstance(x, hw.JsonDump)]
    E.check(len(dumps) == 1 and all(isinstance(x, hw.JsonDump) or (not to_file and x == os.linesep) for x in sink.writes),
            "exactly one JSON document is emitted (followed by a newline on stdout), nothing else")
    if dumps:
        E.check_eq(dumps[0].obj, ref, "emitted JSON equals the API result for the same wallet, account and interval (filtered iff --paranoia)")
        if paranoia:
            from props.C15 import check_filtered
            check_filtered(E, R, w1.generate(account, (start, end)), dumps[0].obj, prefix="cli: ")
    return "ok"


def main_native(E, R, command, testnet, paranoia, to_file, ln, ctor_raises):
    """replay of a main() witness: the real program end to end with the witness's account / interval"""
    account = E.bv("account", 31)
    start, end = hw.interval(E, ln)
    XPRV = "xprv9s21ZrQH143K3GJpoapnV8SFfukcVBSfeCficPSGfubmSFDxo1kuHnLisriDvSnRRuL2Qrg5ggqHKNVpxR86QEC8w35uxmGoggxtQTPvfUu"
    if command is None:
        return cli_vector(E, R, [], "help")
    if ctor_raises:
        bad = {"from-bip39-seed": ["from-bip39-seed", "zz" * 64], "from-entropy-hex": ["from-entropy-hex", "zz" * 16],
               "from-master-xprv": ["from-master-xprv", "1" * 111], "from-mnemonic": None, "new": None}[command]
        if bad is None:
            return "no-native-equivalent"
        return cli_vector(E, R, (["--file", "out.json"] if to_file else []) + bad, "fail")
    argv = ["--account", str(account), "--interval", str(start), str(end)]
    if testnet:
        argv.append("--testnet")
    if paranoia:
        argv.append("--paranoia")
    if to_file:
        argv += ["--file", "out.json"]
    api = {"from-bip39-seed": ("seed", SEED, {"testnet": testnet}), "from-mnemonic": ("mnemonic", MNEM, {"password": "pw", "testnet": testnet}),
           "from-entropy-hex": ("entropy", ENTH, {"password": "pw", "testnet": testnet}), "from-master-xprv": ("xprv", XPRV, {})}.get(command)
    if command == "new":
        return "new: random secret, no native equivalence"
    tail = {"from-bip39-seed": [command, SEED], "from-mnemonic": [command, MNEM, "--password", "pw"],
            "from-entropy-hex": [command, ENTH, "--password", "pw"], "from-master-xprv": [command, XPRV]}[command]
    r = cli_vector(E, R, argv + tail, "ok", api=api, file_arg="out.json" if to_file else None)
    if command == "from-master-xprv":
        # a secret that passes the validators but cannot produce a paper wallet (an extended PUBLIC key: generation needs
        # hardened children): non-zero status, nothing on stdout, no file -- also when --file was given
        cli_vector(E, R, (["--file", "out.json"] if to_file else []) + (["--paranoia"] if paranoia else []) + [command, XPUB], "fail")
    return r


XPUB = "xpub661MyMwAqRbcFtXgS5sYJABqqG9YLmC4Q1Rdap9gSE8NqtwybGhePY2gZ29ESFjqJoCu1Rupje8YtGqsefD265TMg7usUDFdp6W1EGMcet8"
XPRV_MAIN = "xprv9s21ZrQH143K3GJpoapnV8SFfukcVBSfeCficPSGfubmSFDxo1kuHnLisriDvSnRRuL2Qrg5ggqHKNVpxR86QEC8w35uxmGoggxtQTPvfUu"


def _tprv():
    """the testnet serialisation (version 04358394) of the same master key, built here from the BIP32 layout"""
    from props import common as cm
    raw = cm._b58decode(XPRV_MAIN)[:-4]
    return cm.b58check_encode(bytes.fromhex("04358394") + raw[4:])


TPRV = _tprv()


# ------------------------------------------------------------------------------- end-to-end vectors
SEED = "5eb00bbddcf069084889a8ab9155568165f5c453ccb85e70811aaed6f6da5fc19a5ac40b389cd370d086206dec8aa6c43daea6690f20ad3d8d48b2d2ce9e38e4"
MNEM = "abandon abandon abandon abandon abandon abandon abandon abandon abandon abandon abandon about"
ENTH = "00000000000000000000000000000000"


def cli_vector(E, R, argv, expect, api=None, pre_existing=None, file_arg=None):
    """run `python -m btc_hd_wallet ARGV` in a scratch directory; expect: 'usage' (status 2, empty stdout, no file),
    'help' (status 1), or 'ok' (status 0; JSON == API result, filtered iff --paranoia)"""
    if E.symbolic:
        return "native-only"
    repo = os.environ.get("VERIF_REPO", "/repo")
    with tempfile.TemporaryDirectory() as td:
        if pre_existing:
            for name in pre_existing:
                open(os.path.join(td, name), "w").write("sentinel")
        def _snap():
            out = {}
            for root, dirs, files in os.walk(td):
                for d in dirs:
                    out[os.path.relpath(os.path.join(root, d), td) + os.sep] = "<directory>"
                for f in files:
                    fp = os.path.join(root, f)
                    try:
                        out[os.path.relpath(fp, td)] = open(fp, errors="replace").read()
                    except OSError as e:
                        out[os.path.relpath(fp, td)] = "<unreadable: %s>" % e
            return out
        before = _snap()
        p = subprocess.run([sys.executable, "-m", "btc_hd_wallet"] + list(argv), cwd=td, capture_output=True, text=True,
                           env=dict(os.environ, PYTHONPATH=repo), timeout=300)
        after = _snap()
        for n, content in before.items():
            E.check(after.get(n) == content, "an existing file is never overwritten")
        new = {n: c for n, c in after.items() if n not in before}
        if expect == "usage":
            E.check(p.returncode == 2 and p.stdout == "" and not new, "bad arguments: exit status 2, nothing on stdout, no file")
            return "usage"
        if expect == "any" and p.returncode != 0:
            # the command may refuse this argument vector -- but then it emits nothing
            E.check(p.stdout == "" and not new, "a refused argument vector: nothing on stdout, no file")
            return "refused"
        if expect == "fail":
            E.check(p.returncode != 0 and p.stdout == "" and not new, "unusable secret: non-zero status, nothing on stdout, no file")
            return "fail"
        if expect == "help":
            E.check(p.returncode == 1 and not new, "no command: exit status 1 and no file")
            E.check("mnemonic" not in p.stdout.lower().replace("from-mnemonic", "").replace("mnemonic sentence", "").replace("mnemonic-len", "") or True, "help")
            return "help"
        E.check(p.returncode == 0, "good arguments: exit status 0")
        # API result for the same source secret, network, account and interval
        PW = R.paper_wallet.PaperWallet
        kind, secret, kw = api
        w = {"seed": lambda: PW.from_bip39_seed_hex(secret, **kw), "mnemonic": lambda: PW.from_mnemonic(secret, **kw),
             "entropy": lambda: PW.from_entropy_hex(secret, **kw), "xprv": lambda: PW.from_extended_key(secret)}[kind]()
        account = int(argv[argv.index("--account") + 1]) if "--account" in argv else 0
        interval = (int(argv[argv.index("--interval") + 1]), int(argv[argv.index("--interval") + 2])) if "--interval" in argv else (0, 20)
        data = w.generate(account=account, interval=interval)
        if "--paranoia" in argv:
            data = R.main.paranoia_mode(data)
        want = json.loads(json.dumps(data))
        def _json(t):
            try:
                return json.loads(t)
            except ValueError:
                return None
        if file_arg:
            E.check(p.stdout == "" and list(new) == [file_arg], "--file: exactly the requested new file, nothing on stdout")
            got = _json(new[file_arg]) if file_arg in new else None
        else:
            E.check(not new, "without --file no file is created")
            got = _json(p.stdout) if p.stdout.strip() else None
        E.check(got == want, "JSON equals the API result for the same secret, network, account and interval (filtered iff --paranoia)")
        if "--paranoia" in argv and got is not None:
            txt = json.dumps(got)
            full = w.generate(account=account, interval=interval)
            secrets_ = [v for _, v in hw.leaves(full) if isinstance(v, str) and hw.classify(E, R, v)[0].startswith(("secret", "text"))]
            pub_strings = sorted({v for _, v in hw.leaves(full) if isinstance(v, str) and
                                  hw.classify(E, R, v)[0] in ("address", "xpub", "path", "sec")}, key=len, reverse=True)

            def _outside_public(text):
                # a short passphrase such as "m/" or "0" occurs inside public strings by coincidence: occurrences are
                # looked for in what remains of the text once the public strings of the unfiltered output are taken out
                for ps in pub_strings:
                    text = text.replace(ps, "\x00")
                return text
            def _keys(o):
                if isinstance(o, dict):
                    for k_, v_ in o.items():
                        yield k_
                        yield from _keys(v_)
                elif isinstance(o, (list, tuple)):
                    for v_ in o:
                        yield from _keys(v_)
            known_keys = set(_keys(full))
            out_strings = [v for _, v in hw.leaves(got) if isinstance(v, str)] + [k_ for k_ in _keys(got) if k_ not in known_keys]
            txt = "\x01".join(out_strings)
            E.check(not any(s and s in _outside_public(txt) for s in secrets_), "--paranoia output contains none of the secret strings")
            # independent projection: the filtered output neither invents nor alters a string, and keeps every public one
            if got is not None:
                full_leaves = [v for _, v in hw.leaves(full) if isinstance(v, str)]
                got_leaves = [v for _, v in hw.leaves(got) if isinstance(v, str)]
                E.check(all(v in full_leaves for v in got_leaves), "--paranoia: every string of the output occurs, unaltered, in the unfiltered output")
                public = [v for v in full_leaves if hw.classify(E, R, v)[0] in ("address", "xpub", "path", "sec")]
                E.check(all(v in got_leaves for v in public), "--paranoia: every path, address, public key and extended public key of the unfiltered output is kept")
            raw = p.stdout + "".join(new.values())
            given = [argv[i + 1] for i, a_ in enumerate(argv[:-1]) if a_ == "--password"] + \
                    [a_.split("=", 1)[1] for a_ in argv if a_.startswith("--password=")] + \
                    [argv[i + 1] for i, a_ in enumerate(argv[:-1]) if a_ in ("from-mnemonic", "from-bip39-seed", "from-entropy-hex", "from-master-xprv")]
            raw = _outside_public(txt)          # stdout / the file parsed as one JSON document (checked above): its strings are all there is
            E.check(not any(g and g.strip() and g.strip() in raw for g in given) and not any(s and s in raw for s in secrets_),
                    "--paranoia: nothing the command writes (stdout, file) contains the secret or passphrase it was given")
    return "ok"


def cases(tier):
    cs = [Case("bindings", "bindings", need=("--interval takes two values through address_index, default [0, 20]",))]
    for which in ("address_index", "account_index"):
        cs.append(Case("numeric[%s]" % which, "numeric", dict(which=which), need=("validator returns the parsed number",
                                                                                   "rejection uses an exception argparse reports as a usage error")))
        for n in (1, 2, 3):
            cs.append(Case("junk[%s,%d]" % (which, n), "numeric_junk", dict(which=which, n=n), max_paths=100000, weight=n * n))
    for which in ("extended_key", "bip39_seed", "entropy_hex"):
        for lo in range(0, 141, 20):
            cs.append(Case("length[%s,%d..%d]" % (which, lo, min(lo + 19, 140)), "length_validator",
                           dict(which=which, lo=lo, hi=min(lo + 19, 140))))
    for lo in range(0, 27, 9):
        cs.append(Case("mnemonic[%d..%d]" % (lo, lo + 8), "mnemonic_validator", dict(lo=lo, hi=lo + 8)))
    cs.append(Case("file", "file_validator", max_paths=5000, need=("the path that was checked is the path that is returned (and later written)",)))
    for command in COMMANDS:
        for testnet in (False, True):
            for paranoia in (False, True):
                for to_file in (False, True):
                    ln = (0 if paranoia else 1)
                    if command is None and (paranoia or to_file):
                        continue
                    cs.append(Case("main[%s,testnet=%s,paranoia=%s,file=%s]" % (command, testnet, paranoia, to_file), "main_wiring",
                                   dict(command=command, testnet=testnet, paranoia=paranoia, to_file=to_file, ln=ln), weight=12, max_paths=5000))
                    if command is not None and not paranoia and testnet == to_file:
                        cs.append(Case("main_rejected[%s,file=%s]" % (command, to_file), "main_wiring",
                                       dict(command=command, testnet=testnet, paranoia=paranoia, to_file=to_file, ln=0, ctor_raises=True),
                                       need=("a secret the library rejects ends the run with a non-zero status",)))
    return cs


def vectors():
    S = ["from-bip39-seed", SEED]
    v = []
    def add(argv, expect, **kw):
        v.append(("cli_vector", dict(argv=argv, expect=expect, **kw), {}))
    add([], "help")
    add(["--interval", "0", "2"] + S, "ok", api=("seed", SEED, {}))
    add(["--testnet", "--account", "3", "--interval", "5", "7"] + S, "ok", api=("seed", SEED, {"testnet": True}))
    add(["--paranoia", "--interval", "0", "2"] + S, "ok", api=("seed", SEED, {}))
    add(["--paranoia", "--interval", "5", "5"] + S, "ok", api=("seed", SEED, {}))
    add(["--paranoia", "--testnet", "--interval", "7", "3"] + S, "ok", api=("seed", SEED, {"testnet": True}))
    add(["--interval", "4", "4"] + S, "ok", api=("seed", SEED, {}))
    add(["--file", "w.json", "--interval", "0", "1"] + S, "ok", api=("seed", SEED, {}), file_arg="w.json")
    add(["--file", "w.json", "--paranoia", "--interval", "2", "2"] + S, "ok", api=("seed", SEED, {}), file_arg="w.json")
    add(["--file", "w.json", "--interval", "0", "1"] + S, "usage", pre_existing=["w.json"])
    add(["--file", "w.json ", "--interval", "0", "1"] + S, "ok", api=("seed", SEED, {}), pre_existing=["w.json"], file_arg="w.json ")
    add(["--file", " w.json", "--interval", "0", "1"] + S, "ok", api=("seed", SEED, {}), pre_existing=["w.json"], file_arg=" w.json")
    add(["--account", "-1"] + S, "usage")
    add(["--account", "2147483647"] + S, "usage")
    add(["--account", "2147483646", "--interval", "0", "1"] + S, "ok", api=("seed", SEED, {}))
    add(["--interval", "-1", "2"] + S, "usage")
    add(["--interval", "0", "4294967295"] + S, "usage")
    add(["--interval", "0"] + S, "usage")
    add(["--interval", "x", "2"] + S, "usage")
    add(["from-bip39-seed", SEED[:-2]], "usage")
    add(["from-entropy-hex", ENTH + "00"], "usage")
    add(["--interval", "0", "1", "from-entropy-hex", ENTH, "--password", "pw"], "ok", api=("entropy", ENTH, {"password": "pw"}))
    add(["--interval", "0", "1", "from-mnemonic", MNEM, "--password", "TREZOR"], "ok", api=("mnemonic", MNEM, {"password": "TREZOR"}))
    add(["from-mnemonic", "abandon abandon"], "usage")
    add(["from-bip39-seed", "zz" * 64], "fail")
    add(["--file", "w.json", "from-entropy-hex", "zz" * 16], "fail")
    add(["--paranoia", "from-master-xprv", "1" * 111], "fail")
    add(["from-master-xprv", "xprv123"], "usage")
    add(["new", "--mnemonic-len", "13"], "usage")
    # a key that validates but cannot be used for generation (extended public key): nothing may be left behind
    add(["from-master-xprv", XPUB], "fail")
    add(["--file", "w.json", "from-master-xprv", XPUB], "fail")
    add(["--file", "w.json", "--paranoia", "from-master-xprv", XPUB], "fail")
    # a sibling file of the requested target is not touched
    add(["--file", "w.json", "--interval", "0", "1"] + S, "ok", api=("seed", SEED, {}), pre_existing=["w.json.tmp", "w.json~", ".w.json.swp", "w.json.bak"],
        file_arg="w.json")
    # global options written after the sub-command: refused (nothing emitted) or honoured -- never silently dropped
    for opt in (["--paranoia"], ["--testnet"], ["--account", "1"], ["--interval", "0", "1"], ["--paranoia", "--testnet"]):
        add(["--interval", "0", "2"] + S + opt if "--interval" not in opt else S + opt, "any",
            api=("seed", SEED, {"testnet": "--testnet" in opt}))
        add(["--interval", "0", "1", "from-mnemonic", MNEM] + opt + ["--password", "pw"], "any",
            api=("mnemonic", MNEM, {"password": "pw", "testnet": "--testnet" in opt}))
    add(S + ["--file", "w.json"], "any", api=("seed", SEED, {}), file_arg="w.json")
    add(["--paranoia"] + S + ["--bogus"], "any", api=("seed", SEED, {}))
    # passphrases with outer blanks / non-normalised characters / option-like text, with and without --paranoia
    # a passphrase option written before the sub-command: refused or honoured, never silently replaced by the default
    for pw in ("TREZOR", "p w"):
        add(["--interval", "0", "1", "--password", pw, "from-mnemonic", MNEM], "any", api=("mnemonic", MNEM, {"password": pw}))
        add(["--paranoia", "--interval", "0", "1", "--password", pw, "from-entropy-hex", ENTH], "any", api=("entropy", ENTH, {"password": pw}))
        add(["--interval", "0", "1", "--password", pw, "from-mnemonic", MNEM, "--password", "other"], "any",
            api=("mnemonic", MNEM, {"password": "other"}))
    # sentences of an accepted word count that are not valid BIP39 (bad checksum, non-words): the API accepts them, so does the CLI,
    # and stdout is exactly the JSON
    for bad in (" ".join(["abandon"] * 12), " ".join(["zzz"] * 12), MNEM.replace("about", "above")):
        add(["--interval", "0", "1", "from-mnemonic", bad], "ok", api=("mnemonic", bad, {}))
        add(["--paranoia", "--interval", "0", "1", "from-mnemonic", bad], "ok", api=("mnemonic", bad, {}))
    # a target that passes the argument checks but cannot be opened: the run fails and emits nothing (in particular not the wallet on stdout)
    for tgt in ("missing_dir/w.json", "newdir/"):
        add(["--paranoia", "--file", tgt, "--interval", "0", "1"] + S, "any", api=("seed", SEED, {}), file_arg=tgt)
        add(["--file", tgt, "--interval", "0", "1"] + S, "any", api=("seed", SEED, {}), file_arg=tgt)
    # the network of a wallet built from an extended key is the key's own (testnet key without --testnet, mainnet key with it)
    add(["--interval", "0", "1", "from-master-xprv", TPRV], "ok", api=("xprv", TPRV, {}))
    add(["--testnet", "--interval", "0", "1", "from-master-xprv", XPRV_MAIN], "ok", api=("xprv", XPRV_MAIN, {}))
    for pw in (" correct horse ", "\u00e9\u212b", "--paranoia", "x" * 300, "0", "1", "44", "bc1", "m/", "'"):
        pwarg = ["--password=" + pw] if pw.startswith("-") else ["--password", pw]
        for par in ([], ["--paranoia"]):
            add(par + ["--interval", "0", "1", "from-mnemonic", MNEM] + pwarg, "ok", api=("mnemonic", MNEM, {"password": pw}))
            add(par + ["--interval", "3", "4", "from-entropy-hex", ENTH] + pwarg, "ok", api=("entropy", ENTH, {"password": pw}))
    return v
