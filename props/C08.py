"""C08 -- new wallets draw their full entropy from the operating system's CSPRNG."""
import os
import random as _random

from sx.runner import Case
from sx.harness import Raised

ID = "C08"
FUNCTIONS = ["btc_hd_wallet.bip39.mnemonic_from_entropy_bits", "btc_hd_wallet.bip39.random (module-level generator object)",
             "btc_hd_wallet.bip39.correct_entropy_bits_value", "btc_hd_wallet.base_wallet.BaseWallet.new_wallet",
             "btc_hd_wallet.base_wallet.BaseWallet.from_entropy_bits", "btc_hd_wallet.helper.int_to_big_endian"]
BOUNDS = {"lengths": "all five mnemonic lengths; entry points mnemonic_from_entropy_bits, new_wallet and from_entropy_bits on both networks",
          "histories": "two consecutive calls in one process; all values of the OS byte stream and of the Mersenne-Twister stream (symbolic)"}
BOUNDS_ADDED = 'the first k = 1..2 wallet constructions report an invalid master key (injected): whatever is handed out afterwards still has OS entropy'
BOUNDS["histories, lifetimes, injected faults, boundary vectors"] = BOUNDS_ADDED
STUBS = ["os.urandom(n) -> n fresh symbolic bytes per call (request sizes recorded)",
         "random.SystemRandom.getrandbits/randbytes and secrets.randbits/token_bytes -> CPython's definition over os.urandom",
         "the seedable generator (random.getrandbits/randbytes/randrange/..., random.Random instances) -> an independent symbolic stream",
         "mnemonic_from_entropy -> recorder of the entropy it is handed; BaseWallet.from_mnemonic -> recorder"]
ASSUMPTIONS = ["CPython's SystemRandom is backed by os.urandom; that the kernel's CSPRNG is good is outside the claim",
               "an entropy source that is neither os.urandom, random nor secrets would make the entropy concrete under the model and is "
               "reported as a violation of the bit-selection assertion"]
OUTSIDE = ["quality of the operating system's generator"]
LEVEL_TEXT = ("With the OS byte stream and the seedable generator as two independent symbolic streams, the entropy handed to the mnemonic "
              "encoder is shown to be, bit for bit, a selection of distinct bits of that call's os.urandom output (so every bit, MSB "
              "included, is free), of at least ENT bits requested, with no dependence on the seedable generator, for two consecutive calls.")
LEVEL_NOTE = "Trusted: z3, the model of SystemRandom.getrandbits as CPython defines it."
ENT = {12: 128, 15: 160, 18: 192, 21: 224, 24: 256}


class Streams:
    def __init__(self):
        self.u_calls = []      # (n, [z3 vars])
        self.m_vars = []
        self.captured = []     # entropy hex handed to mnemonic_from_entropy


S = Streams()


def setup_sym(R):
    import z3
    import secrets
    from sx import instrument, core
    from sx.values import SxInt, SxBytes
    R.bip39, R.base_wallet

    def urandom(n):
        if FAIL_OS[0]:
            raise NotImplementedError("no OS randomness source")
        if not isinstance(n, int):
            n = n.__index__()
        vs = [z3.BitVec("U%d_%d" % (len(S.u_calls), i), 8) for i in range(n)]
        S.u_calls.append((n, vs))
        return SxBytes([SxInt.unsigned(v) for v in vs]) if n else b""

    def sys_getrandbits(self, k):
        if not isinstance(k, int):
            k = k.__index__()
        if k < 0:
            raise ValueError("number of bits must be non-negative")
        numbytes = (k + 7) // 8
        x = instrument.sx_int_from_bytes(urandom(numbytes), "big")
        return x >> (numbytes * 8 - k)

    def mt_bits(k):
        if not isinstance(k, int):
            k = k.__index__()
        v = z3.BitVec("M%d" % len(S.m_vars), max(k, 1))
        S.m_vars.append(v)
        return SxInt.unsigned(v)

    class MT:
        def __init__(self, *a):
            pass

        def seed(self, *a, **k):
            return None

        def getrandbits(self, k):
            return mt_bits(k)

        def randbytes(self, n):
            return mt_bits(8 * n).to_bytes(n, "little")

        def random(self):
            raise core.Unsupported("float from the seedable generator")

        def randrange(self, a, b=None, step=1):
            lo, hi = (0, a) if b is None else (a, b)
            w = max((hi - lo).bit_length(), 1)
            v = mt_bits(w)
            core.CTX.add(z3.ULT(S.m_vars[-1], hi - lo))
            return v + lo

        def randint(self, a, b):
            return self.randrange(a, b + 1)

        def choice(self, seq):
            return seq[self.randrange(len(seq)).__index__()]

    instrument.register(os.urandom, urandom)
    instrument.register(_random.SystemRandom.getrandbits, sys_getrandbits)
    instrument.register(_random.SystemRandom.randbytes, lambda self, n: urandom(n))
    instrument.register(secrets.randbits, lambda k: sys_getrandbits(None, k))
    instrument.register(secrets.token_bytes, lambda n=32: urandom(n))
    instrument.register(secrets.token_hex, lambda n=32: urandom(n).hex())
    mt = MT()
    for name in ("getrandbits", "randbytes", "random", "randrange", "randint", "choice", "seed"):
        instrument.register(getattr(_random, name), getattr(mt, name))
    instrument.register(_random.Random, MT)
    # the module-level generator object of bip39: a SystemRandom instance keeps its class (methods modelled
    # above); an instance of the seedable class is replaced by the Mersenne-Twister stream
    g = getattr(R.bip39, "random", None)
    if isinstance(g, _random.Random) and not isinstance(g, _random.SystemRandom):
        R.bip39.random = mt

    def capture(entropy):
        S.captured.append(entropy)
        from sx import text
        return text.fresh("mnemonic%d" % len(S.captured))
    instrument.register(R.bip39.mnemonic_from_entropy, capture)

    class Rec:
        def __init__(self, **k):
            self.__dict__.update(k)

    def rec_from_mnemonic(cls, mnemonic, password="", testnet=False):
        # fault injection: the first k wallet constructions report an invalid master key (BIP32: IL = 0 or >= n)
        if INVALID_FIRST[0] > 0:
            INVALID_FIRST[0] -= 1
            raise R.bip32.InvalidKeyError("master key is invalid (injected)")
        return Rec(mnemonic=mnemonic, password=password, testnet=testnet)
    instrument.register(R.base_wallet.BaseWallet.from_mnemonic.__func__, rec_from_mnemonic)


def _entry(R, via, nwords, testnet):
    if via == "bits":
        return lambda: R.bip39.mnemonic_from_entropy_bits(ENT[nwords])
    if via == "new_wallet":
        return lambda: R.base_wallet.BaseWallet.new_wallet(nwords, "", testnet)
    return lambda: R.base_wallet.BaseWallet.from_entropy_bits(ENT[nwords], "", testnet)


def fresh(E, R, nwords, via, testnet):
    if E.symbolic:
        return fresh_sym(E, R, nwords, via, testnet)
    return fresh_native(E, R, nwords, via, testnet)


def fresh_sym(E, R, nwords, via, testnet):
    import z3
    from z3 import z3util
    from sx.instrument import sx_fromhex
    S.u_calls, S.m_vars, S.captured = [], [], []
    f = _entry(R, via, nwords, testnet)
    ent = ENT[nwords]
    seen_u = set()
    for call in (1, 2):
        u0 = len(S.u_calls)
        c0 = len(S.captured)
        r = E.run(f)
        if isinstance(r, Raised):
            E.fail("a fresh wallet / mnemonic is produced")
            return "raised"
        mine = S.u_calls[u0:]
        E.check(sum(n for n, _ in mine) * 8 >= ent, "at least ENT = 32*N/3 bits are requested from the OS random source per call")
        if len(S.captured) != c0 + 1:
            E.fail("exactly one entropy value is encoded per call")
            return "capture"
        eb = sx_fromhex(S.captured[-1]) if not isinstance(S.captured[-1], (bytes,)) and not hasattr(S.captured[-1], "bs") else S.captured[-1]
        if isinstance(eb, bytes):
            E.fail("entropy comes from the OS random source (it is a constant under the model)")
            return "concrete"
        E.check(len(eb) * 8 == ent, "entropy has ENT bits")
        e = z3.simplify(eb.bv())
        my_vars = {str(v) for _, vs in mine for v in vs}
        used = {str(v) for v in z3util.get_vars(e)}
        E.check(not any(n.startswith("M") for n in used), "entropy does not depend on the seedable pseudo-random generator")
        E.check(used <= my_vars, "entropy depends on this call's own OS draw only")
        # bit-for-bit selection of distinct OS bits
        sel = []
        ok = True
        for j in range(ent):
            b = z3.simplify(z3.Extract(j, j, e))
            if b.decl().kind() == z3.Z3_OP_EXTRACT and z3.is_const(b.arg(0)) and b.arg(0).decl().kind() == z3.Z3_OP_UNINTERPRETED:
                sel.append((str(b.arg(0)), b.params()[0]))
            elif z3.is_const(b) and b.decl().kind() == z3.Z3_OP_UNINTERPRETED and b.size() == 1:
                sel.append((str(b), 0))
            else:
                ok = False
                E.check(False, "every entropy bit (the most significant included) is a free bit of the OS draw",
                        extra={"bit": j, "term": str(b)[:80]})
                break
        if ok:
            E.check(len(set(sel)) == ent, "the ENT entropy bits are ENT distinct OS bits (distinct draws give distinct wallets)")
        E.check(not (seen_u & used), "consecutive calls use disjoint OS draws")
        seen_u |= used
    return "ok"


FAIL_OS = [False]
INVALID_FIRST = [0]


def invalid_first(E, R, nwords, via, testnet, k):
    """the first k seeds give an invalid master key (injected InvalidKeyError; natively: HMAC substituted).  BIP32 asks
    for an error; whatever the library does instead, a wallet that comes back has ENT bits of entropy drawn from the OS
    source of a draw of its own -- never from the seedable generator"""
    import z3
    from z3 import z3util
    from sx.instrument import sx_fromhex
    f = _entry(R, via, nwords, testnet)
    ent = ENT[nwords]
    if not E.symbolic:
        return invalid_first_native(E, R, nwords, via, testnet, k)
    S.u_calls, S.m_vars, S.captured = [], [], []
    INVALID_FIRST[0] = k
    try:
        r = E.run(f)
    finally:
        INVALID_FIRST[0] = 0
    if isinstance(r, Raised):
        E.check(isinstance(r.exc, R.bip32.InvalidKeyError), "an invalid master key is reported (or another draw is made); nothing else goes wrong")
        return "reported"
    eb = S.captured[-1] if S.captured else None
    if eb is None or isinstance(eb, (bytes, str)) and not hasattr(eb, "bs") and not hasattr(eb, "items"):
        E.fail("after an invalid first seed: entropy of the wallet handed out comes from the OS random source")
        return "concrete"
    eb = sx_fromhex(eb) if not hasattr(eb, "bs") else eb
    if isinstance(eb, bytes):
        E.fail("after an invalid first seed: entropy of the wallet handed out comes from the OS random source")
        return "concrete"
    used = {str(v) for v in z3util.get_vars(z3.simplify(eb.bv()))}
    E.check(len(eb) * 8 == ent and used and all(n.startswith("U") for n in used),
            "after an invalid first seed: entropy of the wallet handed out comes from the OS random source")
    E.check(not any(n.startswith("M") for n in used), "after an invalid first seed: no dependence on the seedable generator")
    return "retried"


def invalid_first_native(E, R, nwords, via, testnet, k):
    import hmac as _hmac
    import hashlib
    f = _entry(R, via, nwords, testnet)
    if via == "bits":
        return "n/a"
    count = [0]
    real = R.helper.hmac_sha512

    def fake(key, msg):
        if key == b"Bitcoin seed":
            count[0] += 1
            if count[0] <= k:
                return b"\x00" * 64
        return real(key, msg)
    log = []
    real_u = os.urandom

    def meter(n):
        log.append(n)
        return real_u(n)
    saved = (os.urandom, _random._urandom, R.bip32.hmac_sha512)
    os.urandom, _random._urandom, R.bip32.hmac_sha512 = meter, meter, fake
    try:
        outs = []
        for _ in range(2):
            count[0] = 0
            del log[:]
            _random.seed(7)
            r = E.run(f)
            if isinstance(r, Raised):
                E.check(isinstance(r.exc, R.bip32.InvalidKeyError), "an invalid master key is reported (or another draw is made); nothing else goes wrong")
                return "reported"
            outs.append(r.mnemonic)
            E.check(sum(log) * 8 >= (k + 1) * ENT[nwords], "after an invalid first seed: entropy of the wallet handed out comes from the OS random source")
        E.check(outs[0] != outs[1], "after an invalid first seed: no dependence on the seedable generator")
    finally:
        os.urandom, _random._urandom, R.bip32.hmac_sha512 = saved
    return "retried"


def os_unavailable(E, R, nwords, via, testnet):
    """when the operating system's source cannot deliver (os.urandom raises NotImplementedError) no wallet is
    produced -- in particular no fall-back to another generator"""
    f = _entry(R, via, nwords, testnet)
    if E.symbolic:
        S.u_calls, S.m_vars, S.captured = [], [], []
        FAIL_OS[0] = True
        try:
            r = E.run(f)
        finally:
            FAIL_OS[0] = False
    else:
        def boom(n):
            raise NotImplementedError("no OS randomness source")
        saved = (os.urandom, _random._urandom)
        os.urandom = boom
        _random._urandom = boom
        try:
            r = E.run(f)
        finally:
            os.urandom, _random._urandom = saved
    E.check(isinstance(r, Raised), "no mnemonic is produced when the OS random source is unavailable")
    return "refused"


def fresh_native(E, R, nwords, via, testnet):
    """replay: meter and control os.urandom from outside"""
    f = _entry(R, via, nwords, testnet)
    ent = ENT[nwords]
    wl = list(R.bip39.word_list)
    log = []
    fill = [None]
    real_u = os.urandom

    def fake(n):
        log.append(n)
        if fill[0] is None:
            return real_u(n)
        return bytes([fill[0]]) * n
    saved = (os.urandom, _random._urandom)
    os.urandom = fake
    _random._urandom = fake

    def entropy_of(res):
        m = res if isinstance(res, str) else res.mnemonic
        bits = "".join(format(wl.index(w), "011b") for w in m.split(" "))
        return bits[:ent]
    try:
        outs = []
        for seed_, fb in ((1, None), (1, None), (1, 0xff), (2, 0xff), (1, 0x00)):
            _random.seed(seed_)
            fill[0] = fb
            del log[:]
            r = f()
            outs.append(entropy_of(r))
            E.check(sum(log) * 8 >= ent, "at least ENT = 32*N/3 bits are requested from the OS random source per call")
        E.check(outs[0] != outs[1], "entropy does not depend on the seedable pseudo-random generator")
        E.check(outs[2] == outs[3], "entropy depends on this call's own OS draw only")
        E.check(outs[2] == "1" * ent and outs[4] == "0" * ent,
                "every entropy bit (the most significant included) is a free bit of the OS draw")
    finally:
        os.urandom, _random._urandom = saved
    return "ok"


def cases(tier):
    cs = []
    for n in (12, 15, 18, 21, 24):
        cs.append(Case("fresh[%d,bits]" % n, "fresh", dict(nwords=n, via="bits", testnet=False),
                       need=("every entropy bit (the most significant included) is a free bit of the OS draw",) if False else
                       ("the ENT entropy bits are ENT distinct OS bits (distinct draws give distinct wallets)",)))
        for t in (False, True):
            for via in ("new_wallet", "from_entropy_bits"):
                cs.append(Case("fresh[%d,%s,testnet=%s]" % (n, via, t), "fresh", dict(nwords=n, via=via, testnet=t),
                               need=("the ENT entropy bits are ENT distinct OS bits (distinct draws give distinct wallets)",)))
    for n, via, t, k in ((12, "new_wallet", False, 1), (24, "from_entropy_bits", True, 1), (15, "new_wallet", True, 2)):
        cs.append(Case("invalid_first[%d,%s,k=%d]" % (n, via, k), "invalid_first", dict(nwords=n, via=via, testnet=t, k=k)))
    for n, via, t in ((12, "bits", False), (24, "new_wallet", True), (18, "from_entropy_bits", False)):
        cs.append(Case("os_unavailable[%d,%s]" % (n, via), "os_unavailable", dict(nwords=n, via=via, testnet=t),
                       need=("no mnemonic is produced when the OS random source is unavailable",)))
    return cs


def vectors():
    return [("fresh", dict(nwords=n, via="bits", testnet=False), {}) for n in (12, 24)] + \
           [("fresh", dict(nwords=15, via="new_wallet", testnet=True), {}),
            ("invalid_first", dict(nwords=12, via="new_wallet", testnet=False, k=1), {})]
